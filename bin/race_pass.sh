#!/bin/bash
# Free-running -race pass through the node's real local client (validates the ABCI-call-atomicity
# abstraction of C06/C19; decides no property). ~1-2 min (first -race build).
cd "$(dirname "$0")/.."
export GOFLAGS=-mod=mod GOPROXY=off GOSUMDB=off GOTOOLCHAIN=local CGO_ENABLED=1
cp /repo/go.sum go.sum 2>/dev/null || true
exec go test -race -tags verif -vet=off -count=1 -run TestRacePass -v ./checks
