#!/bin/bash
# Rebuild rigomc from /repo's CURRENT working tree (hooks enabled). ~2 s when the cache is warm.
set -e
cd "$(dirname "$0")/.."
export GOFLAGS=-mod=mod GOPROXY=off GOSUMDB=off GOTOOLCHAIN=local CGO_ENABLED=1
cp /repo/go.sum go.sum 2>/dev/null || true
go build -tags verif -o bin/rigomc ./cmd/rigomc
