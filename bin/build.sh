#!/bin/bash
# Rebuild rigomc from the repository's CURRENT working tree (hooks enabled). ~2 s when the cache is warm.
# VERIF_REPO (default /repo) selects the repository tree; a non-default tree builds $VERIF_BIN via an alternate go.mod
# (used only by mutants/run.sh, which works on a private clone so that /repo is never touched).
set -e
cd "$(dirname "$0")/.."
export GOFLAGS=-mod=mod GOPROXY=off GOSUMDB=off GOTOOLCHAIN=local CGO_ENABLED=1
REPO="${VERIF_REPO:-/repo}"
if [ "$REPO" = "/repo" ]; then
  cp /repo/go.sum go.sum 2>/dev/null || true
  go build -tags verif -o bin/rigomc ./cmd/rigomc
else
  OUT="${VERIF_BIN:-bin/rigomc.alt}"
  ALT="$(mktemp -d /dev/shm/altmod.XXXXXX)"
  sed "s#=> /repo#=> $REPO#" go.mod > "$ALT/go.mod"
  cp "$REPO/go.sum" "$ALT/go.sum"
  go build -modfile="$ALT/go.mod" -tags verif -o "$OUT" ./cmd/rigomc
  rm -rf "$ALT"
fi
