#!/bin/bash
# The repository's stable baseline (46 tests) with the `verif` guard OFF.
cd /repo
export GOFLAGS=-mod=mod GOPROXY=off GOSUMDB=off GOTOOLCHAIN=local
exec go test -json -vet=off -count=1 ./cmd/... ./ctrlers/account ./ctrlers/stake ./ctrlers/types ./ctrlers/vm/... ./ledger ./libs/sfeeder/server ./node ./sfeeder/common ./types/...
