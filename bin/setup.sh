#!/bin/bash
# Offline setup after a fresh restore: warm the Go build cache and build the checker.
set -e
cd "$(dirname "$0")/.."
export GOFLAGS=-mod=mod GOPROXY=off GOSUMDB=off GOTOOLCHAIN=local
bin/build.sh
bin/rigomc list
