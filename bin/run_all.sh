#!/bin/bash
# bin/run_all.sh [tier] — run every registered check once (refreshes evidence/*.json). Prints a summary.
cd "$(dirname "$0")/.."
TIER="${1:-quick}"
bin/build.sh || exit 2
for id in $(bin/rigomc list); do
  /usr/bin/time -f "%e s" bin/rigomc check $id $TIER > /dev/shm/runall.$id.log 2>&1
  rc=$?
  echo "$id exit=$rc $(grep -E "^$id $TIER:" /dev/shm/runall.$id.log | tail -1) $(grep -c '^KNOWN-FINDING' /dev/shm/runall.$id.log) known, $(grep -c '^VIOLATION' /dev/shm/runall.$id.log) violations"
done
