#!/bin/bash
# bin/check.sh <Cxx> <quick|thorough>   |   bin/check.sh replay <file>
# (a replay file can also be re-executed as a plain unit test:  REPLAY=<file> go test -tags verif -vet=off -run TestReplay ./checks)
# Rebuilds the checker from /repo's current working tree (build tag `verif`), runs one check,
# writes /verif/evidence/<Cxx>.json. Exit 0 = held on everything explored (KNOWN-FINDING lines
# possible), 1 = VIOLATION line printed, 2 = harness error / vacuous run.
cd "$(dirname "$0")/.."
export VERIF_DIR="$(pwd)"
if ! bin/build.sh; then
  echo "build failed" >&2
  exit 2
fi
if [ "$1" = "replay" ]; then
  exec bin/rigomc replay "$2"
fi
export VERIF_TIER="${2:-quick}"
exec bin/rigomc check "$1" "${2:-quick}"
