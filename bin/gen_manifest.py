#!/usr/bin/env python3
# Regenerates /verif/MANIFEST.json from the table below.  Run after adding/removing a check.
import json, subprocess, os
HERE = os.path.dirname(os.path.dirname(os.path.abspath(__file__)))
CHECKS = {}
def chk(pid, category, text, note, technique, design_ref):
    CHECKS[pid] = dict(category=category, text=text, note=note, technique=technique, design_ref=design_ref)

chk("C18", "model_checking",
    "Explicit-state exploration of operation sequences on the real FinalityLedger (IAVL over goleveldb): every sequence of the tier's length over a 30-op alphabet (incl. read-modify-write on the same item object; unpruned DFS) and a BFS with state de-duplication to the tier's depth, each step compared with a map-with-two-overlays model, every commit/reopen re-reading every historical version. Exhaustive within the stated bounds (2 keys, 2 values, length/depth), which is where delete/re-create and overlay-leak bugs live.",
    "IAVL/goleveldb trusted; cancelSet/cancelDel and the consensus-delete mirroring follow the implementation's documented behaviour (statement is silent); bounds as in evidence.",
    "explicit-state exploration of op sequences on the real ledger vs map model (DFS + BFS with state hashing)", "§5 C18")

chk("C20", "model_checking",
    "Explicit-state exploration of signing-request sequences on the real file-backed signer: BFS to a fixpoint over 72 requests (64 of the validator's chain, 8 carrying another chain id) x {plain, reload-before, failing-state-write (the signer restarts iff it died), both} with state hashing (persisted record, in-memory record, released-signature summary), plus unpruned DFS of all sequences of length 2 (all decorations; thorough: length 3 with reloads). Invariant over every signature ever released: one content per height/round/step, no regression, original re-served with original timestamp, signature verifies, record durable before release, nothing released when the write fails.",
    "Durability below rename(2) is not observable in-process; failing write = missing state directory, restart iff the signer panicked; secp256k1/tendermint sign-bytes trusted.",
    "explicit-state exploration of request sequences with reload/write-fault injection on the real signer (BFS to fixpoint + DFS)", "§5 C20")

chk("C01", "model_checking",
    "Every history within 1 (all slots) / 2 (core slots; thorough: all) deviations of dense default histories, in six genesis/history variants (incl. four proposals applying together and twenty unbonding stakes of which twelve mature in one block), is executed on independent replicas whose responses AND final committed state are compared (other directory, one of them restarted once; thorough: a third in another OS process) and all consensus-visible responses are compared call by call. Exhaustive in the history dimension, which is where 'only on particular histories' bugs live.",
    "Map-iteration order is exercised on every history but sampled, not enumerated; harness feeds byte-identical requests.",
    "deviation-bounded exhaustive history exploration on the real app, twin-replica differential oracle", "§5 C01")
chk("C05", "model_checking",
    "50 failing contract programs [gadget, REVERT] judged against the reference EVM, and 53 failing templates (one per failure reason x type, incl. templates whose first field is acceptable and a later one is not, incl. 256-bit boundary amounts and balance-covers-amount-but-not-fee senders) inserted at EVERY position of the dense history in three genesis variants (thorough: all ordered pairs); the replica with the insertion must agree with the one without on every later response and on the complete committed state.",
    "Empty account records materialised for a looked-up receiver are ignored (not a change of balance/nonce/doc); app hash not compared.",
    "exhaustive insertion of failing transactions at every position, twin oracle over the full state", "§5 C05")
chk("C06", "model_checking",
    "Schedule exploration at ABCI-call granularity: every placement of 1 injected CheckTx/Query (30-call menu; responses and every height's complete committed state compared) into every gap of the dense history (2 genesis variants, one with the stake limiter live) and every pair of state-touching CheckTx placements (quick: nearby gaps; thorough: all); the loaded replica's DeliverTx/EndBlock/Commit responses must equal the quiet replica's and the mempool overlays must be empty after each commit.",
    "ABCI calls are mutually atomic (single client mutex) - assumed here, validated by a separate race pass.",
    "preemption-bounded schedule exploration of injected CheckTx/Query calls, twin oracle", "§5 C06")
chk("C07", "model_checking",
    "For each history of a family (dense history in 2 variants + every single appended deviation from a stake/governance menu; a variant whose proposal changes the validator limits; the small-stake/evidence/jailing history; a 12-block history crossing the reward-hash fold at version 10) every restart set over the block boundaries up to the tier's size is executed (directory copy, new application, Info) and compared call by call with the replica that kept running.",
    "Restart = kill after Commit returned; graceful in-place reopen is impossible in-process (Stop() leaves 3 stores open).",
    "exhaustive enumeration of restart sets x deviation-bounded histories, twin oracle", "§5 C07")

chk("C08", "fault_enumeration",
    "Crash-point enumeration: for every block of every history of a family (dense history in 2 variants, small-stake/evidence history, 12-block history crossing the reward-hash record, every single appended deviation) the data directory is snapshotted after BeginBlock, after each DeliverTx, after EndBlock and inside a hook after EVERY durable write of Commit; every distinct snapshot is reopened, reconciled like Tendermint's handshake, the interrupted block replayed and the remaining blocks compared with the never-crashed replica. One genuine defect (mixed-version stores after a crash inside Commit) is recorded as known finding KF-C08-partial-commit with its 11 crash sites; any other site or kind still fails the check.",
    "Process-death crash model at durable-write granularity; torn LevelDB batches / power-loss reordering are the store's contract.",
    "exhaustive crash-point enumeration via write hooks + directory snapshots, recovery compared with never-crashed twin", "§5 C08")

chk("C09", "model_checking",
    "Bounded-exhaustive enumeration of an input grammar against the real application at three states (fresh, after 4 blocks, and - for mempool checks and queries - a node restarted after those blocks that has not executed a block since), incl. a sender that can afford amounts at the limits of the power arithmetic, through CheckTx and DeliverTx (mid-block) and Query: all byte strings of length <= 2; every prefix, single-bit flip and 00/7f/80/ff substitution of valid encodings of 10 base transactions; re-signed envelopes with every single and every ordered pair of ~90 hostile field values; a 12x11x8 Query grid plus a vm_call grid (senders x 14 targets incl. the precompiles x payloads x heights) under the production RPC environment; delayed consequences (26 hostile-but-accepted governance option documents proposed, voted through, applied, followed by busy blocks); every single deviation of the shared history families (any panicking ABCI call). Oracle: every call returns (recovered panic or dead worker = violation) and a following well-formed transfer and block succeed.",
    "The claim is the enumerated grammar, not all byte strings.",
    "bounded-exhaustive input-grammar enumeration on the real app, no-panic + liveness oracle", "§5 C09")

chk("C02", "model_checking",
    "All histories within the deviation bound of the shared families and of a value-moving family (30-template menu with 256-bit boundary amounts, boundary-balance senders, both genesis stakes unbonding, unstake + re-stake twice in a block, withdrawals (fixed amounts and exactly / one above what is withdrawable), value-carrying contract calls, evidence, jailing, proposer-less blocks): at every height the sum of ALL balances + bonded + unbonding stake read from the implementation obeys T(h)=T(h-1)+withdrawn-slashed-burntFees, no balance exceeds the total supply, every balance equals the model's, and no withdrawal mints more than was issued to the account as reward.",
    'Reference model (mc/refmodel) is result-conditioned: it asserts only the necessary conditions the properties state and computes exact effects / block rules; validator tie-breaks and acceptance heuristics (stake limiter, EVM gas schedule) are not predicted. Known findings are matched by (kind, site) fingerprints.',
    "deviation-bounded exhaustive history exploration on the real app, step-by-step comparison with a result-conditioned reference model", "§5 C02")
chk("C10", "model_checking",
    "All histories within the bound of the shared families and of candidate families (4 candidates around maxValidatorCnt 2 and 3, ties at the cut, governance changes of count and minimum stake, evidence, jailing, one restart at several boundaries): every EndBlock update list is applied to tendermint's REAL ValidatorSet (well-formedness) and the folded set must be a valid top-N of the delegatees the implementation committed at h-1, power = total bonded power.",
    'Reference model (mc/refmodel) is result-conditioned: it asserts only the necessary conditions the properties state and computes exact effects / block rules; validator tie-breaks and acceptance heuristics (stake limiter, EVM gas schedule) are not predicted. Known findings are matched by (kind, site) fingerprints.',
    "deviation-bounded exhaustive history exploration on the real app, step-by-step comparison with a result-conditioned reference model", "§5 C10")
chk("C11", "model_checking",
    'Shared families + stake-centred families (up to 3 operations on the same delegatee per block: stake, delegate, partial / full unstake, forced unbonding, re-stake after deletion; slashing with forfeiture; jailing): per-height invariants read from the implementation (TotalPower / SelfPower = sums of stakes; total_power query = sum; every stake in exactly one place) plus stake-record equality with the model.',
    'Reference model (mc/refmodel) is result-conditioned: it asserts only the necessary conditions the properties state and computes exact effects / block rules; validator tie-breaks and acceptance heuristics (stake limiter, EVM gas schedule) are not predicted. Known findings are matched by (kind, site) fingerprints.',
    "deviation-bounded exhaustive history exploration on the real app, step-by-step comparison with a result-conditioned reference model", "§5 C11")
chk("C12", "model_checking",
    "Shared families + unbonding families (owner / delegatee / stranger unstake attempts, 1-3 stakes unbonding concurrently, forced release, governance change of the unbonding period 2->1 and 2->4 around releases): owner-only release as necessary condition; unbonding list and refunded balances equal the model's at every height (refund exactly once, in full, to the owner, at release + period in force at release).",
    'Reference model (mc/refmodel) is result-conditioned: it asserts only the necessary conditions the properties state and computes exact effects / block rules; validator tie-breaks and acceptance heuristics (stake limiter, EVM gas schedule) are not predicted. Known findings are matched by (kind, site) fingerprints.',
    "deviation-bounded exhaustive history exploration on the real app, step-by-step comparison with a result-conditioned reference model", "§5 C12")
chk("C13", "model_checking",
    'Shared families + reward families (staking changes crossing the 4-block provenance lag, every per-block signing pattern slot, withdrawals 0 / 1 / exact / exact+1 / twice / excessive / without record): issuance per the provenance rule (the harness is the consensus engine and knows from which stake list each voting power was derived), withdrawable = issued - withdrawn at every height, withdraw <= withdrawable as necessary condition, exact credit.',
    'Reference model (mc/refmodel) is result-conditioned: it asserts only the necessary conditions the properties state and computes exact effects / block rules; validator tie-breaks and acceptance heuristics (stake limiter, EVM gas schedule) are not predicted. Known findings are matched by (kind, site) fingerprints.',
    "deviation-bounded exhaustive history exploration on the real app, step-by-step comparison with a result-conditioned reference model", "§5 C13")
chk("C14", "model_checking",
    "Shared families + evidence / downtime families (stakes of power 10,1,2,3 and 8,5; open two-option proposal with the offenders' votes; slash ratio 1/33/50/100; window/minimum (3,2),(2,2),(4,1); per-block evidence from {validator, unknown, other validator, same twice, two validators, non-validator} and missed-signature patterns in every pair of blocks): amounts by the statement's rule via the model, frame condition (bystanders and balances untouched) checked directly on consecutive implementation states.",
    'Reference model (mc/refmodel) is result-conditioned: it asserts only the necessary conditions the properties state and computes exact effects / block rules; validator tie-breaks and acceptance heuristics (stake limiter, EVM gas schedule) are not predicted. Known findings are matched by (kind, site) fingerprints.',
    "deviation-bounded exhaustive history exploration on the real app, step-by-step comparison with a result-conditioned reference model", "§5 C14")
chk("C15", "model_checking",
    'Shared families + governance families (24-template menu of proposals / votes / re-votes by members, late joiners, outsiders at every height relative to the window, up to 3 per block; evidence against voters; two proposals applying at the same height): necessary conditions on acceptance, snapshot tally, pass iff >= floor(2T/3) at close, timed application with unset fields kept, parameters in force == gov_params query == model at every height, plus a behavioural price probe.',
    'Reference model (mc/refmodel) is result-conditioned: it asserts only the necessary conditions the properties state and computes exact effects / block rules; validator tie-breaks and acceptance heuristics (stake limiter, EVM gas schedule) are not predicted. Known findings are matched by (kind, site) fingerprints.',
    "deviation-bounded exhaustive history exploration on the real app, step-by-step comparison with a result-conditioned reference model", "§5 C15")
chk("C16", "model_checking",
    "Shared families + fee families (6 tx types x gas {min-1,min,min+1,large} x price {0,p-1,p,p+1,2^255}, up to 3 per block, proposer of every block from {V0,V1,none}, governance change of gasPrice and minTrxGas in mid-history): admission conditions as necessary conditions, exact charge (gas x price native, gasUsed x price contract, gasUsed <= limit), proposer credited exactly the block's fees; fee-touched balances equal the model's.",
    'Reference model (mc/refmodel) is result-conditioned: it asserts only the necessary conditions the properties state and computes exact effects / block rules; validator tie-breaks and acceptance heuristics (stake limiter, EVM gas schedule) are not predicted. Known findings are matched by (kind, site) fingerprints.',
    "deviation-bounded exhaustive history exploration on the real app, step-by-step comparison with a result-conditioned reference model", "§5 C16")
chk("C04", "model_checking",
    "ALL delivery sequences with repetition (length <= 3 quick / 4 thorough) over 14 CONCRETE signed transactions of two senders (native and contract, incl. native transactions addressed to a contract account), each cut into blocks at every possible place: duplicates inside a block, replays in later blocks, out-of-order delivery, interleaving. Oracle: success => nonce equal (model), nonce +1 / unchanged compared at every height for both nonce-bumping paths, each signed transaction (by hash) succeeds at most once.",
    "Reference model is result-conditioned; bounded by the menu and the sequence length.",
    "exhaustive enumeration of delivery sequences of concrete signed transactions on the real app, reference model + at-most-once oracle", "§5 C04")
chk("C19", "model_checking",
    "For every history of a family (dense in 2 variants, small-stake, a history with below-minimum delegatees and validator-to-validator delegation; 12 pending mempool checks served before the queries of every gap; every single appended deviation; one restart at every boundary) EVERY query of the universe (7 paths x keys x heights 0..latest+1) is asked at EVERY gap between consensus calls and at the end: answers for a committed height never change (also mid-block, after later blocks, after a restart), agree with the complete state dump of that height, height 0 == latest, latest+1 is an error, and the queried replica's consensus responses equal the quiet replica's.",
    "Answers compared after JSON key-order canonicalisation (tendermint's JSON encoder emits map fields in random order - not a different answer); state dumps are validated against the reference model by the other checks; stakes/voting_power is outside the statement's list.",
    "exhaustive (path x key x height x moment) query enumeration over deviation-bounded histories, immutability + state agreement + twin oracle", "§5 C19")
chk("C03", "model_checking",
    "(a) For a valid signed transaction of every type (10 bases) every single and every pair of mutations of a ~150-operator menu over the DECODED fields (incl. the narrowed payload integers at +2^31/+2^32/+2^40/+2^62, claimed sender, type relabelling, option lists, every signature byte, chain id in both directions incl. 11 near variants of the application's own id) is delivered with the signature kept: the mutant must fail, the genuine transaction must still succeed afterwards, and the full state must equal the twin that never saw the mutants. (b) Bounded injectivity: over the full product of per-field value menus chosen to collide under any 32/64-bit narrowing (~460k transactions) no two transactions differing in an executed field share a signing pre-image.",
    "Injectivity is claimed over the enumerated menus; wire-level re-encodings decoding to equal values are not alterations; secp256k1/sha256 trusted.",
    "bounded-exhaustive mutation enumeration with twin oracle + exhaustive bounded pre-image injectivity check", "§5 C03")
chk("C17", "model_checking",
    "ALL gadget sequences up to length 3 (quick) / 4 (thorough) over a 30-gadget alphabet (block/transaction context, a helper whose inner frame touches a third party and succeeds, value to the COINBASE, code introspection, DELEGATECALL / STATICCALL and value to a precompile in programs up to length 2, storage, logs, BALANCE of known and never-seen accounts, value-forwarding CALLs to EOA / contract / reverting contract / self, CREATE, CREATE2, CALLVALUE, SELFBALANCE, gas loop, RETURN, REVERT, SELFDESTRUCT to another account / the caller) are deployed and exercised in 4 history families mixing deployments and calls with and without value, plain transfers to the contract and to a child it created, native transfers, staking, proposer-less blocks and a vm_call after every block; every contract transaction runs in lock step on a vanilla go-ethereum StateDB + ApplyMessage world whose balances/nonces are overwritten from the native-ledger model before and copied back after each message. Compared: outcome, return data, gas used, logs per transaction; native balance and nonce of every account of the reference world, code and storage of every contract at every height; vm_call result and read-onlyness. Two genuine defects recorded as known findings (CREATE-made contracts bypassed by plain transfers; self-destructed contracts keep their native record).",
    "go-ethereum interpreter/StateDB/ApplyMessage trusted; storage is read slot-by-slot (slots 0..15), which covers the gadget alphabet.",
    "exhaustive program (gadget-sequence) enumeration x history family, lock-step differential execution against a reference EVM world", "§5 C17")

ALL = ["C%02d" % i for i in range(1, 21)]
PENDING_REASON = "check under construction in this round (model-checking harness not yet registered); see DESIGN.md §5"

def main():
    src = subprocess.run(["git", "-C", "/repo", "log", "--format=%H %s"], capture_output=True, text=True).stdout.splitlines()
    hooks = [l.split()[0] for l in src if "verif hooks" in l]
    m = {
        "version": 1,
        "setup_cmd": "bin/setup.sh",
        "hooks": {
            "guard": "verif",
            "enable": "go build -tags verif (bin/build.sh builds /verif/cmd/rigomc against /repo's working tree with the tag on)",
            "baseline_off_cmd": "bin/baseline_off.sh",
            "source_commits": hooks,
            "add_only": True,
        },
        "engines": [
            {"name": "engine", "path": "mc/engine", "serves_properties": sorted(CHECKS), "kind_free_text": "exhaustive case enumerator: worker processes, level (deviation/depth) accounting, 5x violation confirmation, known-finding fingerprints, evidence + replay writer, helper-process pool for BFS"},
            {"name": "sim", "path": "mc/sim", "serves_properties": [p for p in sorted(CHECKS) if p not in ("C18", "C20")], "kind_free_text": "Tendermint-faithful ABCI driver over the real node.RigoApp (real tendermint ValidatorSet as consensus oracle), symbolic transaction templates, directory-snapshot restart/crash, full-state observation"},
        ],
        "checks": [],
        "not_applicable": [],
        "notes": "Model checks (C02, C04, C10-C16): every property-specific family also runs with one node restart at deviation level <= 1; histories may contain mempool-only (CheckTx, never delivered) transactions; C12-C15 have 260-block families around height 256. All checks: bin/check.sh <id> <tier>. Exit 0 held / 1 VIOLATION / 2 harness error or vacuous run. known_findings.json lists recorded genuine defects (fingerprints) and fixed: entries. seeded/ holds independently written property-breaking changes, mutants/ our own; DESIGN.md §11 records which check catches which.",
    }
    for pid in ALL:
        if pid in CHECKS:
            c = CHECKS[pid]
            m["checks"].append({
                "property_id": pid,
                "quick_cmd": "bin/check.sh %s quick" % pid,
                "thorough_cmd": "bin/check.sh %s thorough" % pid,
                "evidence_file": "/verif/evidence/%s.json" % pid,
                "replay_cmd_template": "bin/check.sh replay {path}",
                "engine": "engine",
                "level_claimed": {"category": c["category"], "text": c["text"], "design_ref": c["design_ref"]},
                "level_note": c["note"],
                "technique": c["technique"],
            })
        else:
            m["not_applicable"].append({"property_id": pid, "reason": PENDING_REASON})
    with open(os.path.join(HERE, "MANIFEST.json"), "w") as f:
        json.dump(m, f, indent=1)
        f.write("\n")

main()
