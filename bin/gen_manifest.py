#!/usr/bin/env python3
# Regenerates /verif/MANIFEST.json from the table below.  Run after adding/removing a check.
import json, subprocess, os
HERE = os.path.dirname(os.path.dirname(os.path.abspath(__file__)))
CHECKS = {}
def chk(pid, category, text, note, technique, design_ref):
    CHECKS[pid] = dict(category=category, text=text, note=note, technique=technique, design_ref=design_ref)

chk("C18", "model_checking",
    "Explicit-state exploration of operation sequences on the real FinalityLedger (IAVL over goleveldb): every sequence of the tier's length over a 26-op alphabet (unpruned DFS) and a BFS with state de-duplication to the tier's depth, each step compared with a map-with-two-overlays model, every commit/reopen re-reading every historical version. Exhaustive within the stated bounds (2 keys, 2 values, length/depth), which is where delete/re-create and overlay-leak bugs live.",
    "IAVL/goleveldb trusted; cancelSet/cancelDel and the consensus-delete mirroring follow the implementation's documented behaviour (statement is silent); bounds as in evidence.",
    "explicit-state exploration of op sequences on the real ledger vs map model (DFS + BFS with state hashing)", "§5 C18")

chk("C20", "model_checking",
    "Explicit-state exploration of signing-request sequences on the real file-backed signer: BFS to a fixpoint over 64 requests x {plain, reload-before, failing-state-write+restart, both} with state hashing (persisted record, in-memory record, released-signature summary), plus unpruned DFS of all sequences of length 2 (all decorations; thorough: length 3 with reloads). Invariant over every signature ever released: one content per height/round/step, no regression, original re-served with original timestamp, signature verifies, record durable before release, nothing released when the write fails.",
    "Durability below rename(2) is not observable in-process; failing write = missing state directory + restart; secp256k1/tendermint sign-bytes trusted.",
    "explicit-state exploration of request sequences with reload/write-fault injection on the real signer (BFS to fixpoint + DFS)", "§5 C20")

chk("C01", "model_checking",
    "Every history within 1 (all slots) / 2 (core slots; thorough: all) deviations of dense default histories, in four genesis variants, is executed on independent replicas (other directory, one of them restarted once; thorough: a third in another OS process) and all consensus-visible responses are compared call by call. Exhaustive in the history dimension, which is where 'only on particular histories' bugs live.",
    "Map-iteration order is exercised on every history but sampled, not enumerated; harness feeds byte-identical requests.",
    "deviation-bounded exhaustive history exploration on the real app, twin-replica differential oracle", "§5 C01")
chk("C05", "model_checking",
    "49 failing templates (one per failure reason x type, incl. 256-bit boundary amounts and balance-covers-amount-but-not-fee senders) inserted at EVERY position of the dense history in three genesis variants (thorough: all ordered pairs); the replica with the insertion must agree with the one without on every later response and on the complete committed state.",
    "Empty account records materialised for a looked-up receiver are ignored (not a change of balance/nonce/doc); app hash not compared.",
    "exhaustive insertion of failing transactions at every position, twin oracle over the full state", "§5 C05")
chk("C06", "model_checking",
    "Schedule exploration at ABCI-call granularity: every placement of 1 injected CheckTx/Query (23-call menu) into every gap of the dense history (2 genesis variants, one with the stake limiter live) and every pair of state-touching CheckTx placements (quick: nearby gaps; thorough: all); the loaded replica's DeliverTx/EndBlock/Commit responses must equal the quiet replica's and the mempool overlays must be empty after each commit.",
    "ABCI calls are mutually atomic (single client mutex) - assumed here, validated by a separate race pass.",
    "preemption-bounded schedule exploration of injected CheckTx/Query calls, twin oracle", "§5 C06")
chk("C07", "model_checking",
    "For each history of a family (dense history in 2 variants + every single appended deviation from a stake/governance menu; a variant whose proposal changes the validator limits; the small-stake/evidence/jailing history; a 12-block history crossing the reward-hash fold at version 10) every restart set over the block boundaries up to the tier's size is executed (directory copy, new application, Info) and compared call by call with the replica that kept running.",
    "Restart = kill after Commit returned; graceful in-place reopen is impossible in-process (Stop() leaves 3 stores open).",
    "exhaustive enumeration of restart sets x deviation-bounded histories, twin oracle", "§5 C07")

chk("C08", "fault_enumeration",
    "Crash-point enumeration: for every block of every history of a family (dense history in 2 variants, small-stake/evidence history, 12-block history crossing the reward-hash record, every single appended deviation) the data directory is snapshotted after BeginBlock, after each DeliverTx, after EndBlock and inside a hook after EVERY durable write of Commit; every distinct snapshot is reopened, reconciled like Tendermint's handshake, the interrupted block replayed and the remaining blocks compared with the never-crashed replica. One genuine defect (mixed-version stores after a crash inside Commit) is recorded as known finding KF-C08-partial-commit with its 11 crash sites; any other site or kind still fails the check.",
    "Process-death crash model at durable-write granularity; torn LevelDB batches / power-loss reordering are the store's contract.",
    "exhaustive crash-point enumeration via write hooks + directory snapshots, recovery compared with never-crashed twin", "§5 C08")

chk("C09", "model_checking",
    "Bounded-exhaustive enumeration of an input grammar against the real application at two states, through CheckTx and DeliverTx (mid-block) and Query: all byte strings of length <= 2; every prefix, single-bit flip and 00/7f/80/ff substitution of valid encodings of 10 base transactions; re-signed envelopes with every single and every ordered pair of ~90 hostile field values; a 12x11x8 Query grid incl. vm_call under the production RPC environment. Oracle: every call returns (recovered panic or dead worker = violation) and a following well-formed transfer and block succeed.",
    "The claim is the enumerated grammar, not all byte strings; balances bounded by the harness genesis.",
    "bounded-exhaustive input-grammar enumeration on the real app, no-panic + liveness oracle", "§5 C09")

ALL = ["C%02d" % i for i in range(1, 21)]
PENDING_REASON = "check under construction in this round (model-checking harness not yet registered); see DESIGN.md §5"

def main():
    src = subprocess.run(["git", "-C", "/repo", "log", "--format=%H %s"], capture_output=True, text=True).stdout.splitlines()
    hooks = [l.split()[0] for l in src if "verif hooks" in l]
    m = {
        "version": 1,
        "setup_cmd": "bin/setup.sh",
        "hooks": {
            "guard": "verif",
            "enable": "go build -tags verif (bin/build.sh builds /verif/cmd/rigomc against /repo's working tree with the tag on)",
            "baseline_off_cmd": "bin/baseline_off.sh",
            "source_commits": hooks,
            "add_only": True,
        },
        "engines": [
            {"name": "engine", "path": "mc/engine", "serves_properties": sorted(CHECKS), "kind_free_text": "exhaustive case enumerator: worker processes, level (deviation/depth) accounting, 5x violation confirmation, known-finding fingerprints, evidence + replay writer, helper-process pool for BFS"},
            {"name": "sim", "path": "mc/sim", "serves_properties": [p for p in sorted(CHECKS) if p not in ("C18", "C20")], "kind_free_text": "Tendermint-faithful ABCI driver over the real node.RigoApp (real tendermint ValidatorSet as consensus oracle), symbolic transaction templates, directory-snapshot restart/crash, full-state observation"},
        ],
        "checks": [],
        "not_applicable": [],
        "notes": "All checks: bin/check.sh <id> <tier>. Exit 0 held / 1 VIOLATION / 2 harness error or vacuous run. known_findings.json lists recorded genuine defects (fingerprints) and fixed: entries. seeded/ holds independently written property-breaking changes, mutants/ our own; DESIGN.md §11 records which check catches which.",
    }
    for pid in ALL:
        if pid in CHECKS:
            c = CHECKS[pid]
            m["checks"].append({
                "property_id": pid,
                "quick_cmd": "bin/check.sh %s quick" % pid,
                "thorough_cmd": "bin/check.sh %s thorough" % pid,
                "evidence_file": "/verif/evidence/%s.json" % pid,
                "replay_cmd_template": "bin/check.sh replay {path}",
                "engine": "engine",
                "level_claimed": {"category": c["category"], "text": c["text"], "design_ref": c["design_ref"]},
                "level_note": c["note"],
                "technique": c["technique"],
            })
        else:
            m["not_applicable"].append({"property_id": pid, "reason": PENDING_REASON})
    with open(os.path.join(HERE, "MANIFEST.json"), "w") as f:
        json.dump(m, f, indent=1)
        f.write("\n")

main()
