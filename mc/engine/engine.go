// Package engine is the shared exhaustive-enumeration runner: a check declares a finite,
// deterministically ordered list of cases (grouped in levels = deviation bounds / depths), the
// runner executes every case on worker processes, aggregates coverage, confirms violations by
// re-execution, separates known findings from new violations and writes evidence + replay files.
package engine

import (
	"bufio"
	"bytes"
	"context"
	"crypto/sha256"
	"encoding/hex"
	"encoding/json"
	"fmt"
	"io"
	"os"
	"os/exec"
	"path/filepath"
	"runtime"
	"sort"
	"strconv"
	"strings"
	"sync"
	"time"
)

type Violation struct {
	Property string          `json:"property"`
	Kind     string          `json:"kind"`
	Site     string          `json:"site"`
	Detail   string          `json:"detail"`
	Case     json.RawMessage `json:"case,omitempty"`
}

func (v Violation) Fingerprint() string { return v.Kind + " @ " + v.Site }

type Result struct {
	Index       int             `json:"i"`
	Level       int             `json:"lv"`
	Outcome     string          `json:"out,omitempty"`
	Nontrivial  bool            `json:"nt,omitempty"`
	States      []string        `json:"st,omitempty"`
	Transitions int             `json:"tr,omitempty"`
	Counters    map[string]int  `json:"ct,omitempty"`
	Violations  []Violation     `json:"viol,omitempty"`
	Sample      json.RawMessage `json:"sample,omitempty"`
	Err         string          `json:"err,omitempty"`
}

func (r *Result) Count(k string, n int) {
	if r.Counters == nil {
		r.Counters = map[string]int{}
	}
	r.Counters[k] += n
}

type Meta struct {
	Category    string   // evidence level
	Rule        string   // how cases are enumerated, what is non-trivial
	Assumptions []string // trusted base
	LevelName   string   // what a "level" is: "deviations", "depth", ...
	Technique   string
	// DeathIsViolation: a worker process dying while running a case is itself a violation (C09).
	DeathIsViolation bool
	// MinRepro: how many of the 5 confirmation re-executions must show the same fingerprint (default 5).
	// A check whose PROPERTY is determinism itself (C01) sets 1: a divergence between identically fed replicas
	// that shows up only sometimes is exactly the violation, not harness noise.
	MinRepro int
	// CaseTimeout: watchdog per case (default 300 s). A case that exceeds it kills its worker; the parent then treats
	// the case like a dead worker (harness error, or a violation when DeathIsViolation).
	CaseTimeout time.Duration
	// WorkerGOMAXPROCS: GOMAXPROCS of each worker process (default 1: 16 single-threaded workers beat 16x16 GC threads).
	WorkerGOMAXPROCS int
}

type Check interface {
	ID() string
	Meta() Meta
	// Prepare builds the deterministic case list for the tier.
	Prepare(tier string, seed int64) error
	NumCases() int
	Level(i int) int
	Desc(i int) json.RawMessage
	// RunDesc executes one case given only its description (also used by replay).
	RunDesc(desc json.RawMessage) Result
	// Guards returns vacuity complaints after aggregation (nil = fine). complete tells whether every case ran.
	Guards(a *Agg, complete bool) []string
}

type Agg struct {
	Cases       int
	Ran         int
	Nontrivial  int
	Transitions int
	States      map[string]struct{}
	Outcomes    map[string]int
	Counters    map[string]int
	PerLevel    map[int][2]int // level -> (total, ran)
	Samples     []json.RawMessage
	Violations  []Violation
	HarnessErrs []string
	Unconfirmed []string
	// Fingerprints: every violation fingerprint seen (known findings included) -> number of cases showing it
	Fingerprints map[string]int
}

var registry = map[string]func() Check{}

func Register(id string, f func() Check) { registry[id] = f }

func Lookup(id string) (Check, bool) {
	f, ok := registry[id]
	if !ok {
		return nil, false
	}
	return f(), true
}

func IDs() []string {
	var s []string
	for k := range registry {
		s = append(s, k)
	}
	sort.Strings(s)
	return s
}

func VerifDir() string {
	if d := os.Getenv("VERIF_DIR"); d != "" {
		return d
	}
	return "/verif"
}

func Seed() int64 {
	if s := os.Getenv("VERIF_SEED"); s != "" {
		if v, err := strconv.ParseInt(s, 10, 64); err == nil {
			return v
		}
	}
	return 1
}

func budget(tier string) time.Duration {
	if s := os.Getenv("VERIF_BUDGET_S"); s != "" {
		if v, err := strconv.Atoi(s); err == nil {
			return time.Duration(v) * time.Second
		}
	}
	if tier == "thorough" {
		return 30 * time.Minute
	}
	// every quick check finishes in 20-100 s on an idle 16-core machine; the budget only matters on a loaded or slower
	// one, where cutting the deepest level short (exhaustive:false) would silently narrow what a quick run explores
	return 300 * time.Second
}

func workerProcs(m Meta) int {
	if m.WorkerGOMAXPROCS > 0 {
		return m.WorkerGOMAXPROCS
	}
	return 1
}

func nworkers() int {
	if s := os.Getenv("VERIF_WORKERS"); s != "" {
		if v, err := strconv.Atoi(s); err == nil && v > 0 {
			return v
		}
	}
	n := runtime.NumCPU()
	if n > 16 {
		n = 16
	}
	return n
}

// safeRun runs one case and converts a panic of the harness/check into Result.Err.
func safeRun(c Check, i int) (res Result) {
	defer func() {
		if r := recover(); r != nil {
			buf := make([]byte, 4096)
			n := runtime.Stack(buf, false)
			res = Result{Index: i, Level: c.Level(i), Err: fmt.Sprintf("harness panic: %v\n%s", r, buf[:n])}
		}
	}()
	res = c.RunDesc(c.Desc(i))
	res.Index = i
	res.Level = c.Level(i)
	return
}

// WorkerMain: rigomc worker <id> <tier> <seed> <shard> <nshards> <deadline-unix>
func WorkerMain(args []string) int {
	id, tier := args[0], args[1]
	seed, _ := strconv.ParseInt(args[2], 10, 64)
	shard, _ := strconv.Atoi(args[3])
	n, _ := strconv.Atoi(args[4])
	dl, _ := strconv.ParseInt(args[5], 10, 64)
	c, ok := Lookup(id)
	if !ok {
		fmt.Fprintln(os.Stderr, "unknown check", id)
		return 2
	}
	if err := c.Prepare(tier, seed); err != nil {
		fmt.Fprintln(os.Stderr, "prepare:", err)
		return 2
	}
	w := bufio.NewWriterSize(os.Stdout, 1<<16)
	defer w.Flush()
	enc := json.NewEncoder(w)
	deadline := time.Unix(dl, 0)
	for i := shard; i < c.NumCases(); i += n {
		if time.Now().After(deadline) {
			break
		}
		fmt.Fprintf(w, "#start %d\n", i)
		w.Flush()
		to := c.Meta().CaseTimeout
		if to == 0 {
			to = 300 * time.Second
		}
		wd := time.AfterFunc(to, func() {
			fmt.Fprintf(os.Stderr, "WATCHDOG: case %d of %s exceeded %v - worker exits\n", i, id, to)
			os.Exit(3)
		})
		r := safeRun(c, i)
		// a harness-level error (could not copy a directory, could not read a state dump ...) says nothing about the
		// application: the case is executed again; only an error that persists is reported
		for k := 0; k < 2 && r.Err != ""; k++ {
			r = safeRun(c, i)
			if r.Counters == nil {
				r.Counters = map[string]int{}
			}
			r.Counters["cases_re-executed_after_a_harness_error"]++
		}
		wd.Stop()
		_ = enc.Encode(r)
		w.Flush()
	}
	fmt.Fprintln(w, "#done")
	return 0
}

// RunCaseMain: rigomc runcase <id> <tier> <seed> <index>  → one JSON result on stdout
func RunCaseMain(args []string) int {
	id, tier := args[0], args[1]
	seed, _ := strconv.ParseInt(args[2], 10, 64)
	idx, _ := strconv.Atoi(args[3])
	c, ok := Lookup(id)
	if !ok {
		return 2
	}
	if err := c.Prepare(tier, seed); err != nil {
		return 2
	}
	r := safeRun(c, idx)
	_ = json.NewEncoder(os.Stdout).Encode(r)
	return 0
}

// RunDescMain: rigomc rundesc <id> <tier> <seed>  (case description on stdin) → one JSON result on stdout
func RunDescMain(args []string) int {
	id, tier := args[0], args[1]
	seed, _ := strconv.ParseInt(args[2], 10, 64)
	c, ok := Lookup(id)
	if !ok {
		return 2
	}
	if err := c.Prepare(tier, seed); err != nil {
		return 2
	}
	desc, _ := io.ReadAll(os.Stdin)
	var res Result
	func() {
		defer func() {
			if r := recover(); r != nil {
				res = Result{Err: fmt.Sprintf("harness panic: %v", r)}
			}
		}()
		res = c.RunDesc(desc)
	}()
	_ = json.NewEncoder(os.Stdout).Encode(res)
	return 0
}

// subTimeout bounds one re-execution of a case in a sub-process (confirmation runs): a case that hangs is an error of that
// re-execution, never an endless wait of the whole check.
const subTimeout = 420 * time.Second

func runDescSub(id, tier string, seed int64, desc json.RawMessage, gmp int) (Result, error) {
	ctx, cancel := context.WithTimeout(context.Background(), subTimeout)
	defer cancel()
	cmd := exec.CommandContext(ctx, selfExe(), "rundesc", id, tier, strconv.FormatInt(seed, 10))
	cmd.Env = append(os.Environ(), "GOGC=400", "GOMEMLIMIT=3GiB", "GOMAXPROCS="+strconv.Itoa(gmp))
	cmd.Stdin = bytes.NewReader(desc)
	out, err := cmd.Output()
	var r Result
	if err != nil {
		return r, err
	}
	if err := json.Unmarshal(out, &r); err != nil {
		return r, err
	}
	return r, nil
}

type replayFile struct {
	Property    string          `json:"property"`
	Tier        string          `json:"tier"`
	Seed        int64           `json:"seed"`
	Index       int             `json:"index"`
	Fingerprint string          `json:"fingerprint"`
	Violation   Violation       `json:"violation"`
	Case        json.RawMessage `json:"case"`
}

// ReplayMain: rigomc replay <file>
func ReplayMain(path string) int {
	bz, err := os.ReadFile(path)
	if err != nil {
		fmt.Fprintln(os.Stderr, err)
		return 2
	}
	var rf replayFile
	if err := json.Unmarshal(bz, &rf); err != nil {
		fmt.Fprintln(os.Stderr, err)
		return 2
	}
	c, ok := Lookup(rf.Property)
	if !ok {
		return 2
	}
	if err := c.Prepare(rf.Tier, rf.Seed); err != nil {
		fmt.Fprintln(os.Stderr, err)
		return 2
	}
	r := c.RunDesc(rf.Case)
	out, _ := json.MarshalIndent(r, "", " ")
	fmt.Println(string(out))
	if len(r.Violations) > 0 {
		for _, v := range r.Violations {
			fmt.Printf("REPRODUCED property=%s %s\n", rf.Property, v.Fingerprint())
		}
		return 1
	}
	fmt.Println("not reproduced")
	return 0
}

func selfExe() string {
	p, err := os.Executable()
	if err != nil {
		return os.Args[0]
	}
	return p
}

// CountMain: rigomc count <id> <tier> — number of cases per level (no execution).
func CountMain(id, tier string) int {
	c, ok := Lookup(id)
	if !ok {
		return 2
	}
	if err := c.Prepare(tier, Seed()); err != nil {
		fmt.Fprintln(os.Stderr, err)
		return 2
	}
	per := map[int]int{}
	for i := 0; i < c.NumCases(); i++ {
		per[c.Level(i)]++
	}
	fmt.Printf("%s %s: %d cases, per level %v\n", id, tier, c.NumCases(), per)
	return 0
}

// CheckMain: rigomc check <id> <tier>
func CheckMain(id, tier string) int {
	t0 := time.Now()
	c, ok := Lookup(id)
	if !ok {
		fmt.Fprintln(os.Stderr, "unknown check", id)
		return 2
	}
	seed := Seed()
	if err := c.Prepare(tier, seed); err != nil {
		fmt.Fprintln(os.Stderr, "prepare:", err)
		return 2
	}
	meta := c.Meta()
	n := c.NumCases()
	agg := &Agg{Cases: n, States: map[string]struct{}{}, Outcomes: map[string]int{}, Counters: map[string]int{}, PerLevel: map[int][2]int{}}
	for i := 0; i < n; i++ {
		pl := agg.PerLevel[c.Level(i)]
		pl[0]++
		agg.PerLevel[c.Level(i)] = pl
	}
	// Harness self-test: one fixed case is executed twice in fresh processes; what the harness observed must be
	// identical, otherwise the harness itself is nondeterministic and nothing it reports can be trusted (exit 2).
	if n > 0 && os.Getenv("VERIF_NO_SELFTEST") == "" {
		si := 1
		if n == 1 {
			si = 0
		}
		r1, e1 := runCaseSub(id, tier, seed, si)
		r2, e2 := runCaseSub(id, tier, seed, si)
		sig := func(r Result) string {
			st := append([]string{}, r.States...)
			sort.Strings(st)
			var fps []string
			for _, v := range r.Violations {
				fps = append(fps, v.Fingerprint())
			}
			sort.Strings(fps)
			return fmt.Sprintf("%s|%d|%v|%v|%s", r.Outcome, r.Transitions, st, fps, r.Err)
		}
		if e1 != nil || e2 != nil {
			if !meta.DeathIsViolation {
				fmt.Fprintf(os.Stderr, "HARNESS-ERROR: self-test case %d could not be executed: %v %v\n", si, e1, e2)
				return 2
			}
		} else if sig(r1) != sig(r2) && meta.MinRepro == 0 {
			fmt.Fprintf(os.Stderr, "HARNESS-ERROR: self-test: case %d executed twice gave different observations\n %s\n %s\n", si, sig(r1), sig(r2))
			return 2
		}
	}
	nw := nworkers()
	if nw > n {
		nw = n
	}
	if nw < 1 {
		nw = 1
	}
	deadline := t0.Add(budget(tier))
	var mu sync.Mutex
	ran := make([]bool, n)
	violIdx := map[string]int{} // fingerprint -> first case index
	violOf := map[string]Violation{}
	fpCount := map[string]int{}
	var died []int
	handle := func(r Result) {
		mu.Lock()
		defer mu.Unlock()
		if r.Index >= 0 && r.Index < n {
			ran[r.Index] = true
		}
		agg.Ran++
		pl := agg.PerLevel[r.Level]
		pl[1]++
		agg.PerLevel[r.Level] = pl
		if r.Err != "" {
			if len(agg.HarnessErrs) < 20 {
				agg.HarnessErrs = append(agg.HarnessErrs, fmt.Sprintf("case %d: %s", r.Index, r.Err))
			}
			return
		}
		if r.Nontrivial {
			agg.Nontrivial++
		}
		agg.Transitions += r.Transitions
		for _, s := range r.States {
			agg.States[s] = struct{}{}
		}
		if r.Outcome != "" {
			agg.Outcomes[r.Outcome]++
		}
		for k, v := range r.Counters {
			agg.Counters[k] += v
		}
		if r.Sample != nil && len(agg.Samples) < 6 {
			agg.Samples = append(agg.Samples, r.Sample)
		}
		for _, v := range r.Violations {
			fp := v.Fingerprint()
			fpCount[fp]++
			if old, ok := violIdx[fp]; !ok || r.Index < old {
				violIdx[fp] = r.Index
				violOf[fp] = v
			}
		}
	}
	var wg sync.WaitGroup
	for s := 0; s < nw; s++ {
		wg.Add(1)
		go func(shard int) {
			defer wg.Done()
			cmd := exec.Command(selfExe(), "worker", id, tier, strconv.FormatInt(seed, 10), strconv.Itoa(shard), strconv.Itoa(nw), strconv.FormatInt(deadline.Unix(), 10))
			cmd.Env = append(os.Environ(), "GOGC=400", "GOMEMLIMIT=3GiB", "GOMAXPROCS="+strconv.Itoa(workerProcs(meta)))
			cmd.Stderr = os.Stderr
			out, err := cmd.StdoutPipe()
			if err != nil {
				return
			}
			if err := cmd.Start(); err != nil {
				return
			}
			sc := bufio.NewScanner(out)
			sc.Buffer(make([]byte, 1<<20), 1<<28)
			cur := -1
			done := false
			for sc.Scan() {
				line := sc.Text()
				if strings.HasPrefix(line, "#start ") {
					cur, _ = strconv.Atoi(line[7:])
					continue
				}
				if line == "#done" {
					done = true
					continue
				}
				var r Result
				if err := json.Unmarshal([]byte(line), &r); err != nil {
					continue
				}
				cur = -1
				handle(r)
			}
			_ = cmd.Wait()
			// a worker that died could not remove its scratch directory
			if cmd.Process != nil {
				_ = os.RemoveAll(fmt.Sprintf("/dev/shm/rigomc-%d", cmd.Process.Pid))
			}
			if !done && cur >= 0 {
				mu.Lock()
				died = append(died, cur)
				mu.Unlock()
			}
		}(s)
	}
	wg.Wait()

	// A worker that died mid-case: confirm by running that case alone.
	for _, idx := range died {
		okRuns, deaths := 0, 0
		var last Result
		for k := 0; k < 3; k++ {
			r, err := runCaseSub(id, tier, seed, idx)
			if err != nil {
				deaths++
			} else {
				okRuns++
				last = r
			}
		}
		if deaths == 3 && meta.DeathIsViolation {
			handle(Result{Index: idx, Level: c.Level(idx), Violations: []Violation{{Property: id, Kind: "process-death", Site: fmt.Sprintf("case %d", idx), Detail: "worker process died while executing this case (3/3 re-runs died)", Case: c.Desc(idx)}}})
		} else if deaths > 0 {
			agg.HarnessErrs = append(agg.HarnessErrs, fmt.Sprintf("case %d: worker died (%d/3 re-runs died)", idx, deaths))
		} else {
			handle(last)
		}
	}

	complete := true
	for i := range ran {
		if !ran[i] {
			complete = false
			break
		}
	}

	// confirm violations: re-run 5x, must reproduce the same fingerprint each time
	kf := LoadKnownFindings()
	var fps []string
	for fp := range violIdx {
		fps = append(fps, fp)
	}
	sort.Strings(fps)
	exit := 0
	knownPrinted := map[string]bool{}
	newViol := 0
	// Report the violations with the fewest deviations first; confirm / report at most maxReport
	// distinct fingerprints individually (the rest is counted: they cost 5 re-executions each).
	sort.SliceStable(fps, func(i, j int) bool { return violIdx[fps[i]] < violIdx[fps[j]] })
	const maxReport = 12
	reported := 0
	for _, fp := range fps {
		v := violOf[fp]
		idx := violIdx[fp]
		if k := kf.Match(id, v); k == nil {
			if reported >= maxReport {
				agg.Counters["further_distinct_violation_fingerprints_not_individually_confirmed"]++
				exit = 1
				continue
			}
			reported++
		}
		if v.Kind != "process-death" {
			rep := 0
			for k := 0; k < 5; k++ {
				var r Result
				var err error
				if v.Case != nil {
					r, err = runDescSub(id, tier, seed, v.Case, workerProcs(meta))
				} else {
					r, err = runCaseSub(id, tier, seed, idx)
				}
				if err != nil {
					continue
				}
				for _, v2 := range r.Violations {
					if v2.Fingerprint() == fp {
						rep++
						break
					}
				}
			}
			need := 5
			if meta.MinRepro > 0 {
				need = meta.MinRepro
			}
			if rep == 0 {
				// seen once, never again in 5 re-executions of the same case: nothing the explored (deterministic) space
				// contains; recorded, not believed and not hidden
				msg := fmt.Sprintf("observation %q of case %d was not reproduced in 5 re-executions of the same case (transient of the environment, outside the explored space)", fp, idx)
				agg.Unconfirmed = append(agg.Unconfirmed, msg)
				fmt.Fprintln(os.Stderr, "UNCONFIRMED:", msg)
				continue
			}
			if rep < need {
				agg.HarnessErrs = append(agg.HarnessErrs, fmt.Sprintf("violation %q of case %d reproduced %d/5 times: harness nondeterminism", fp, idx, rep))
				continue
			}
			if rep < 5 {
				v.Detail += fmt.Sprintf("\n (re-executed 5 times, diverged again in %d of them: the divergence itself is nondeterministic)", rep)
			}
		}
		if k := kf.Match(id, v); k != nil {
			if !knownPrinted[k.ID] {
				knownPrinted[k.ID] = true
				fmt.Printf("KNOWN-FINDING: property=%s %s (%s)\n", id, k.What, k.ID)
			}
			agg.Counters["known_finding_hits"]++
			continue
		}
		newViol++
		agg.Violations = append(agg.Violations, v)
		rdesc := c.Desc(idx)
		if v.Case != nil {
			rdesc = v.Case
		}
		path := writeReplay(id, tier, seed, idx, v, rdesc)
		fmt.Printf("VIOLATION property=%s replay=%s\n", id, path)
		fmt.Printf("  %s: %s\n", fp, firstLine(v.Detail))
		exit = 1
	}

	agg.Fingerprints = fpCount
	guards := c.Guards(agg, complete)
	writeEvidence(c, meta, tier, seed, agg, complete, newViol, time.Since(t0), guards)

	fmt.Printf("%s %s: cases=%d ran=%d nontrivial=%d states=%d transitions=%d outcomes=%d exhaustive=%v wall=%.1fs\n",
		id, tier, n, agg.Ran, agg.Nontrivial, len(agg.States), agg.Transitions, len(agg.Outcomes), complete, time.Since(t0).Seconds())
	if len(agg.HarnessErrs) > 0 {
		for _, e := range agg.HarnessErrs {
			fmt.Fprintln(os.Stderr, "HARNESS-ERROR:", firstLine(e))
		}
		if exit == 0 {
			exit = 2
		}
	}
	if len(guards) > 0 {
		for _, g := range guards {
			fmt.Fprintln(os.Stderr, "VACUOUS:", g)
		}
		if exit == 0 {
			exit = 2
		}
	}
	return exit
}

func firstLine(s string) string {
	if i := strings.IndexByte(s, '\n'); i >= 0 {
		s = s[:i]
	}
	if len(s) > 300 {
		s = s[:300] + "…"
	}
	return s
}

func runCaseSub(id, tier string, seed int64, idx int) (Result, error) {
	ctx, cancel := context.WithTimeout(context.Background(), subTimeout)
	defer cancel()
	cmd := exec.CommandContext(ctx, selfExe(), "runcase", id, tier, strconv.FormatInt(seed, 10), strconv.Itoa(idx))
	cmd.Env = append(os.Environ(), "GOGC=400", "GOMEMLIMIT=3GiB")
	out, err := cmd.Output()
	var r Result
	if err != nil {
		return r, err
	}
	if err := json.Unmarshal(out, &r); err != nil {
		return r, err
	}
	return r, nil
}

func writeReplay(id, tier string, seed int64, idx int, v Violation, desc json.RawMessage) string {
	h := sha256.Sum256([]byte(v.Fingerprint() + string(desc)))
	dir := filepath.Join(VerifDir(), "replays")
	_ = os.MkdirAll(dir, 0o755)
	path := filepath.Join(dir, fmt.Sprintf("%s-%s.json", id, hex.EncodeToString(h[:6])))
	rf := replayFile{Property: id, Tier: tier, Seed: seed, Index: idx, Fingerprint: v.Fingerprint(), Violation: v, Case: desc}
	bz, _ := json.MarshalIndent(rf, "", " ")
	_ = os.WriteFile(path, bz, 0o644)
	return path
}

func writeEvidence(c Check, meta Meta, tier string, seed int64, a *Agg, complete bool, newViol int, wall time.Duration, guards []string) {
	levels := []int{}
	for l := range a.PerLevel {
		levels = append(levels, l)
	}
	sort.Ints(levels)
	lv := map[string]interface{}{}
	completed := -1
	stop := false
	for _, l := range levels {
		p := a.PerLevel[l]
		lv[strconv.Itoa(l)] = map[string]int{"cases": p[0], "ran": p[1]}
		if !stop && p[0] == p[1] {
			completed = l
		} else {
			stop = true
		}
	}
	samples := a.Samples
	if len(samples) == 0 && c.NumCases() > 0 {
		samples = []json.RawMessage{c.Desc(0)}
	}
	cov := map[string]interface{}{
		"evaluations":                   a.Ran,
		"distinct_nontrivial":           a.Nontrivial,
		"rule":                          meta.Rule,
		"samples":                       samples,
		"states":                        len(a.States),
		"transitions":                   a.Transitions,
		"traces_validated_against_impl": a.Ran,
		"exhaustive":                    complete,
		"cases_enumerated":              a.Cases,
		"level_is":                      meta.LevelName,
		"levels":                        lv,
		"bound_completed":               completed,
		"distinct_outcomes":             len(a.Outcomes),
		"outcomes":                      a.Outcomes,
		"counters":                      a.Counters,
		"known_finding_hits":            a.Counters["known_finding_hits"],
	}
	if len(a.Fingerprints) > 0 {
		cov["violation_fingerprints_seen(known findings included)"] = a.Fingerprints
	}
	if len(guards) > 0 {
		cov["vacuity_guards_failed"] = guards
	}
	if len(a.Unconfirmed) > 0 {
		cov["unconfirmed_observations(seen once, 0/5 on re-execution)"] = a.Unconfirmed
	}
	if len(a.HarnessErrs) > 0 {
		cov["harness_errors"] = a.HarnessErrs
	}
	ev := map[string]interface{}{
		"property_id": c.ID(),
		"tier":        tier,
		"seed":        seed,
		"level":       meta.Category,
		"coverage":    cov,
		"assumptions": meta.Assumptions,
		"wall_s":      wall.Seconds(),
		"violations":  newViol,
		"technique":   meta.Technique,
	}
	dir := filepath.Join(VerifDir(), "evidence")
	_ = os.MkdirAll(dir, 0o755)
	bz, _ := json.MarshalIndent(ev, "", " ")
	_ = os.WriteFile(filepath.Join(dir, c.ID()+".json"), append(bz, '\n'), 0o644)
}
