package engine

import (
	"encoding/json"
	"os"
	"path/filepath"
	"regexp"
)

// KnownFinding identifies one genuine, recorded (not repaired) defect by the fingerprint
// (kind, site pattern) of the violations it produces. A different kind or a site that does not
// match is still reported as a VIOLATION.
type KnownFinding struct {
	ID       string `json:"id"`
	Property string `json:"property"`
	KindRe   string `json:"kind_regex"`
	SiteRe   string `json:"site_regex"`
	What     string `json:"what"`
	re       *regexp.Regexp
	kre      *regexp.Regexp
}

type KnownFindings struct {
	Findings []*KnownFinding `json:"findings"`
	Fixed    []string        `json:"fixed"`
}

func LoadKnownFindings() *KnownFindings {
	kf := &KnownFindings{}
	bz, err := os.ReadFile(filepath.Join(VerifDir(), "known_findings.json"))
	if err != nil {
		return kf
	}
	_ = json.Unmarshal(bz, kf)
	for _, f := range kf.Findings {
		f.re, _ = regexp.Compile("^(?:" + f.SiteRe + ")$")
		f.kre, _ = regexp.Compile("^(?:" + f.KindRe + ")$")
	}
	return kf
}

func (kf *KnownFindings) Match(prop string, v Violation) *KnownFinding {
	for _, f := range kf.Findings {
		if f.Property == prop && f.kre != nil && f.kre.MatchString(v.Kind) && f.re != nil && f.re.MatchString(v.Site) {
			return f
		}
	}
	return nil
}
