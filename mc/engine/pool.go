package engine

import (
	"bufio"
	"encoding/json"
	"fmt"
	"io"
	"os"
	"os/exec"
	"sync"
)

// Evaluator is implemented by checks whose search (e.g. BFS with state de-duplication) needs to
// farm out individual executions to helper processes: rigomc eval <id> reads one JSON request per
// line and answers one JSON line.
type Evaluator interface {
	Eval(req json.RawMessage) json.RawMessage
}

func EvalMain(id string) int {
	c, ok := Lookup(id)
	if !ok {
		return 2
	}
	ev, ok := c.(Evaluator)
	if !ok {
		return 2
	}
	r := bufio.NewReaderSize(os.Stdin, 1<<20)
	w := bufio.NewWriterSize(os.Stdout, 1<<20)
	for {
		line, err := r.ReadBytes('\n')
		if len(line) > 1 {
			out := ev.Eval(json.RawMessage(line))
			w.Write(out)
			w.WriteByte('\n')
			w.Flush()
		}
		if err != nil {
			return 0
		}
	}
}

type poolProc struct {
	cmd *exec.Cmd
	in  io.WriteCloser
	out *bufio.Reader
}

type Pool struct {
	id    string
	procs chan *poolProc
	all   []*poolProc
}

func NewPool(id string, n int) (*Pool, error) {
	p := &Pool{id: id, procs: make(chan *poolProc, n)}
	for i := 0; i < n; i++ {
		cmd := exec.Command(selfExe(), "eval", id)
		cmd.Env = append(os.Environ(), "GOGC=400", "GOMAXPROCS=1", "GOMEMLIMIT=2GiB")
		cmd.Stderr = os.Stderr
		in, err := cmd.StdinPipe()
		if err != nil {
			return nil, err
		}
		out, err := cmd.StdoutPipe()
		if err != nil {
			return nil, err
		}
		if err := cmd.Start(); err != nil {
			return nil, err
		}
		pp := &poolProc{cmd: cmd, in: in, out: bufio.NewReaderSize(out, 1<<20)}
		p.all = append(p.all, pp)
		p.procs <- pp
	}
	return p, nil
}

// Map evaluates all requests (order preserved). A helper that dies yields an error for its request.
func (p *Pool) Map(reqs []json.RawMessage) ([]json.RawMessage, error) {
	outs := make([]json.RawMessage, len(reqs))
	var wg sync.WaitGroup
	var mu sync.Mutex
	var firstErr error
	idx := make(chan int, len(reqs))
	for i := range reqs {
		idx <- i
	}
	close(idx)
	n := cap(p.procs)
	for w := 0; w < n; w++ {
		wg.Add(1)
		go func() {
			defer wg.Done()
			pp := <-p.procs
			defer func() { p.procs <- pp }()
			for i := range idx {
				if _, err := pp.in.Write(append(append([]byte{}, reqs[i]...), '\n')); err != nil {
					mu.Lock()
					firstErr = fmt.Errorf("eval helper write: %w", err)
					mu.Unlock()
					return
				}
				line, err := pp.out.ReadBytes('\n')
				if err != nil {
					mu.Lock()
					firstErr = fmt.Errorf("eval helper died on request %s: %w", string(reqs[i]), err)
					mu.Unlock()
					return
				}
				outs[i] = json.RawMessage(line)
			}
		}()
	}
	wg.Wait()
	return outs, firstErr
}

func (p *Pool) Close() {
	for _, pp := range p.all {
		_ = pp.in.Close()
		_ = pp.cmd.Wait()
		if pp.cmd.Process != nil {
			_ = os.RemoveAll(fmt.Sprintf("/dev/shm/rigomc-%d", pp.cmd.Process.Pid))
		}
	}
}
