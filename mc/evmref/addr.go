package evmref

import (
	"github.com/ethereum/go-ethereum/common"
	"github.com/ethereum/go-ethereum/crypto"
)

func cryptoCreateAddress(from common.Address, nonce uint64) common.Address {
	return crypto.CreateAddress(from, nonce)
}
