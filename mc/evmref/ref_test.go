package evmref

import (
	"fmt"
	"math/big"
	"testing"

	"github.com/ethereum/go-ethereum/common"
)

func TestAccounts(t *testing.T) {
	w := New()
	a := common.HexToAddress("0x01020304050607080900010203040506070809aa")
	b := common.HexToAddress("0x01020304050607080900010203040506070809bb")
	w.DB.SetBalance(a, big.NewInt(1000000000))
	w.DB.SetBalance(b, big.NewInt(1000000000))
	r := w.Apply(a, nil, 0, big.NewInt(0), 200000, big.NewInt(1), common.FromHex("6001600c60003960016000f300"), common.Address{}, 1, 1, common.Hash{1}, 0, nil, false)
	fmt.Println(r.Failed, r.Err, r.GasUsed, r.Created)
	for ad, da := range w.Accounts() {
		fmt.Println(ad, da.Balance, da.Nonce, len(da.Code))
	}
	w.DB.SetBalance(b, big.NewInt(1000000000))
	r = w.Apply(b, nil, 0, big.NewInt(0), 200000, big.NewInt(1), common.FromHex("6005600c60003960056000f360016000fd"), common.Address{}, 1, 1, common.Hash{2}, 1, nil, false)
	fmt.Println(r.Failed, r.Err, r.GasUsed, r.Created)
	for ad, da := range w.Accounts() {
		fmt.Println(ad, da.Balance, da.Nonce, len(da.Code))
	}
}
