// Package evmref is the reference EVM world of C17: a VANILLA go-ethereum StateDB (in memory) and
// core.ApplyMessage with the application's chain configuration and block context.  Balances and
// nonces are overwritten from the native-ledger model before every transaction and read back after
// it; code and storage live only here.  go-ethereum's interpreter is a trusted dependency — what is
// judged is the repository's state-db wrapper and controller.
package evmref

import (
	"math/big"

	"github.com/ethereum/go-ethereum/common"
	"github.com/ethereum/go-ethereum/core"
	"github.com/ethereum/go-ethereum/core/rawdb"
	"github.com/ethereum/go-ethereum/core/state"
	ethtypes "github.com/ethereum/go-ethereum/core/types"
	"github.com/ethereum/go-ethereum/core/vm"
	"github.com/ethereum/go-ethereum/trie"
	rigoevm "github.com/rigochain/rigo-go/ctrlers/vm/evm"
)

const BlockGasLimit = uint64(25_000_000)

type World struct {
	DB    *state.StateDB
	Known map[common.Address]bool // every address that ever appeared
}

func New() *World {
	db, _ := state.New(common.Hash{}, state.NewDatabaseWithConfig(rawdb.NewMemoryDatabase(), &trie.Config{Preimages: true}), nil)
	return &World{DB: db, Known: map[common.Address]bool{}}
}

func blockCtx(coinbase common.Address, height, tm int64) vm.BlockContext {
	return vm.BlockContext{
		CanTransfer: func(db vm.StateDB, a common.Address, amt *big.Int) bool { return db.GetBalance(a).Cmp(amt) >= 0 },
		Transfer: func(db vm.StateDB, s, r common.Address, amt *big.Int) {
			db.SubBalance(s, amt)
			db.AddBalance(r, amt)
		},
		GetHash:     func(uint64) common.Hash { return common.Hash{} },
		Coinbase:    coinbase,
		BlockNumber: big.NewInt(height),
		Time:        big.NewInt(tm),
		Difficulty:  big.NewInt(1),
		BaseFee:     big.NewInt(0),
		GasLimit:    BlockGasLimit,
	}
}

type Result struct {
	Err     string // consensus-level error of ApplyMessage (tx not executable) or VM error (revert, out of gas …)
	Failed  bool
	Ret     []byte
	GasUsed uint64
	Logs    []*ethtypes.Log
	Created common.Address
}

// Apply executes one message. On failure the world is rolled back completely (RIGO's rule: a failed
// transaction has no effect and is not charged).
func (w *World) Apply(from common.Address, to *common.Address, nonce uint64, value *big.Int, gas uint64, price *big.Int, data []byte,
	coinbase common.Address, height, tm int64, txHash common.Hash, txIdx int, gp *core.GasPool, readOnly bool) *Result {
	snap := w.DB.Snapshot()
	w.DB.Prepare(txHash, txIdx)
	msg := ethtypes.NewMessage(from, to, nonce, value, gas, price, big.NewInt(0), big.NewInt(0), data, nil, readOnly)
	evm := vm.NewEVM(blockCtx(coinbase, height, tm), core.NewEVMTxContext(msg), w.DB, rigoevm.RIGOMainnetEVMCtrlerChainConfig, vm.Config{NoBaseFee: true})
	res := &Result{}
	if to == nil {
		res.Created = cryptoCreateAddress(from, nonce)
	}
	pool := gp
	if pool == nil {
		pool = new(core.GasPool).AddGas(BlockGasLimit)
	}
	er, err := core.ApplyMessage(evm, msg, pool)
	if err != nil {
		w.DB.RevertToSnapshot(snap)
		res.Failed, res.Err = true, err.Error()
		return res
	}
	res.Ret, res.GasUsed = er.ReturnData, er.UsedGas
	if er.Failed() {
		w.DB.RevertToSnapshot(snap)
		res.Failed, res.Err = true, er.Err.Error()
		return res
	}
	if readOnly {
		w.DB.RevertToSnapshot(snap)
		return res
	}
	res.Logs = w.DB.GetLogs(txHash, common.Hash{})
	w.DB.Finalise(true)
	return res
}

// Accounts lists every account of the reference world.
func (w *World) Accounts() map[common.Address]state.DumpAccount {
	// code and storage become readable through the dump only once committed; re-open on the new root
	root, err := w.DB.Commit(true)
	if err == nil {
		if ndb, err := state.New(root, w.DB.Database(), nil); err == nil {
			w.DB = ndb
		}
	}
	d := w.DB.RawDump(&state.DumpConfig{SkipCode: false, SkipStorage: false, OnlyWithAddresses: true, Max: 0})
	return d.Accounts
}
