// Package refmodel is the result-conditioned reference state machine of the RIGO application.
//
// Block-level rules (reward issuance, slashing, jailing, proposal freezing / applying, fee hand-over,
// refunds, parameter switch) are computed by the model from the properties' statements.
// Transaction-level rules are conditioned on the implementation's result code: a failed transaction
// does not move the model; a successful one first has the NECESSARY conditions the properties state
// asserted (each assertion is owned by one property) and then has its exact effect applied.
// After every commit the complete model state is compared with the implementation's committed state;
// every component of the state is owned by one property.
package refmodel

import (
	"bytes"
	"encoding/hex"
	"encoding/json"
	"fmt"
	"math/big"
	"sort"
	"strings"

	"verif/mc/sim"
)

type Finding struct {
	Prop    string // owning property ("BAL" = a balance, attributed by the checks through Reasons)
	Kind    string
	Site    string
	Detail  string
	H       int64
	Reasons string // for balances: why the model moved this balance in this block (fee, proposer, refund, withdraw, transfer, stake, evm)
}

type Acct struct {
	Bal   *big.Int
	Nonce uint64
	Name  string
	Doc   string
	Code  string // hex of the native code marker (deploying tx hash); "" = none
}

type Stake struct {
	Owner, To, TxHash string // hex upper
	Power             int64
	Start, Refund     int64
	Genesis           bool
}

type Deleg struct {
	Addr   string
	PubKey string
	Stakes []*Stake
	Missed []int64
}

func (d *Deleg) Total() int64 {
	var t int64
	for _, s := range d.Stakes {
		t += s.Power
	}
	return t
}
func (d *Deleg) Self() int64 {
	var t int64
	for _, s := range d.Stakes {
		if s.Owner == d.Addr {
			t += s.Power
		}
	}
	return t
}
func (d *Deleg) clone() *Deleg {
	n := &Deleg{Addr: d.Addr, PubKey: d.PubKey, Missed: append([]int64{}, d.Missed...)}
	for _, s := range d.Stakes {
		c := *s
		n.Stakes = append(n.Stakes, &c)
	}
	return n
}

type Reward struct {
	Issued, Withdrawn *big.Int // totals
}

func (r *Reward) Withdrawable() *big.Int { return new(big.Int).Sub(r.Issued, r.Withdrawn) }

type Voter struct {
	Power  int64
	Choice int32
}

type Prop struct {
	Hash              string
	Status            string // voting | frozen
	Start, End, Apply int64
	Total, Majority   int64
	Voters            map[string]*Voter
	Options           []string
	Votes             []int64
	Major             string
	MajorCands        []string // options tied for the top that reach the majority (the statement leaves ties open)
	HasMajor          bool
	OptType           int32
	CreatedAt         int64
}

func (p *Prop) clone() *Prop {
	n := *p
	n.Voters = map[string]*Voter{}
	for k, v := range p.Voters {
		c := *v
		n.Voters[k] = &c
	}
	n.Options = append([]string{}, p.Options...)
	n.Votes = append([]int64{}, p.Votes...)
	return &n
}

type Val struct {
	Addr  string
	Power int64
}

type Model struct {
	H      int64 // last committed height
	Acct   map[string]*Acct
	Deleg  map[string]*Deleg
	Frozen []*Stake
	Rwd    map[string]*Reward
	// RwdAlt: withdrawable reward as the CODE's provenance rule for blocks <= 4 would give it (it reads
	// version 1 / the latest version instead of the genesis list and skips a validator whose power differs);
	// only used to classify a C13 mismatch precisely.
	RwdAlt map[string]*big.Int
	Props  map[string]*Prop
	Params map[string]*big.Int
	// Pending: parameters staged by an applied proposal, in force after the commit.
	Pending map[string]*big.Int

	LastVals []Val // validator set last reported to consensus (taken over from the implementation after C10's validity check)

	// history needed by block rules
	DelegAt   map[int64]map[string]*Deleg // delegatees committed at height h
	PropsAt   map[int64]map[string]*Prop  // proposals committed at height h
	FrozenAt  map[int64][]*Stake
	ParamsAt  map[int64]map[string]*big.Int
	GenesisDg map[string]*Deleg
	StateAt   map[int64]*sim.State // model snapshots in the implementation's dump format (for C19)

	// per block
	cur      int64
	fees     *big.Int
	proposer string
	Findings []Finding
	// accounting for C02: value legitimately created / destroyed in the current block
	Minted  *big.Int // rewards withdrawn
	Burnt   *big.Int // slashed stake + fees without proposer
	Genesis *big.Int // total value at genesis

	UnbondingPeriodAtRelease map[string]int64 // txhash -> period in force when released (C12)
	reasons                  map[string]map[string]bool
	// Collided: unbonding stakes that share their ledger key (tx hash) with another unbonding stake — the
	// statement treats them as two stakes; used only to classify a mismatch precisely.
	Collided        map[string]*Stake // owner -> stake
	LostToCollision []*big.Int
	EVM             EVMHook
	punitive        bool // the current block carried evidence or missed signatures
}

func (m *Model) freeze(s *Stake) {
	for _, f := range m.Frozen {
		if f.TxHash == s.TxHash && f != s {
			if m.Collided == nil {
				m.Collided = map[string]*Stake{}
			}
			m.Collided[f.Owner] = f
			m.Collided[s.Owner] = s
		}
	}
	m.Frozen = append(m.Frozen, s)
}

func (m *Model) touch(a, why string) {
	if m.reasons == nil {
		m.reasons = map[string]map[string]bool{}
	}
	if m.reasons[a] == nil {
		m.reasons[a] = map[string]bool{}
	}
	m.reasons[a][why] = true
}

func (m *Model) reasonsOf(a string) string {
	var l []string
	for k := range m.reasons[a] {
		l = append(l, k)
	}
	sort.Strings(l)
	return strings.Join(l, ",")
}

func hx(b []byte) string { return strings.ToUpper(hex.EncodeToString(b)) }

func cloneParams(p map[string]*big.Int) map[string]*big.Int {
	n := map[string]*big.Int{}
	for k, v := range p {
		n[k] = new(big.Int).Set(v)
	}
	return n
}

func (m *Model) P(k string) *big.Int { return m.Params[k] }
func (m *Model) Pi(k string) int64   { return m.Params[k].Int64() }

func (m *Model) acct(a string) *Acct {
	if x, ok := m.Acct[a]; ok {
		return x
	}
	x := &Acct{Bal: new(big.Int)}
	m.Acct[a] = x
	return x
}

func (m *Model) find(prop, kind, site, format string, a ...interface{}) {
	m.Findings = append(m.Findings, Finding{Prop: prop, Kind: kind, Site: site, Detail: fmt.Sprintf(format, a...), H: m.cur})
}

// New builds the model of the genesis state.
func New(g *sim.Genesis) *Model {
	m := &Model{Acct: map[string]*Acct{}, Deleg: map[string]*Deleg{}, Rwd: map[string]*Reward{}, RwdAlt: map[string]*big.Int{}, Props: map[string]*Prop{},
		Params: map[string]*big.Int{}, DelegAt: map[int64]map[string]*Deleg{}, PropsAt: map[int64]map[string]*Prop{}, FrozenAt: map[int64][]*Stake{},
		ParamsAt: map[int64]map[string]*big.Int{}, GenesisDg: map[string]*Deleg{}, StateAt: map[int64]*sim.State{}, UnbondingPeriodAtRelease: map[string]int64{}}
	for k := range sim.DefaultParams {
		m.Params[k] = g.Param(k)
	}
	for n, b := range g.Holders {
		m.acct(sim.W(n).Hex()).Bal = sim.ParseAmount(b, new(big.Int), new(big.Int))
	}
	zero := strings.Repeat("00", 32)
	for i, n := range g.Vals {
		a := sim.W(n).Hex()
		m.acct(a)
		d := &Deleg{Addr: a, PubKey: hx(sim.W(n).Pub)}
		d.Stakes = append(d.Stakes, &Stake{Owner: a, To: a, TxHash: zero, Power: g.Powers[i], Start: 1, Genesis: true})
		m.Deleg[a] = d
		m.GenesisDg[a] = d.clone()
	}
	m.DelegAt[0] = map[string]*Deleg{}
	m.PropsAt[0] = map[string]*Prop{}
	m.ParamsAt[0] = cloneParams(m.Params)
	m.Genesis = m.TotalValue()
	return m
}

func (m *Model) TotalValue() *big.Int {
	t := new(big.Int)
	for _, a := range m.Acct {
		t.Add(t, a.Bal)
	}
	for _, d := range m.Deleg {
		t.Add(t, new(big.Int).Mul(big.NewInt(d.Total()), sim.Pow18))
	}
	for _, f := range m.Frozen {
		t.Add(t, new(big.Int).Mul(big.NewInt(f.Power), sim.Pow18))
	}
	return t
}

// ---------------------------------------------------------------------------------------------
// BeginBlock

type Vote struct {
	Addr   string
	Power  int64
	Signed bool
}

// BeginBlock applies evidence, rewards and downtime jailing for block h.
func (m *Model) BeginBlock(h int64, proposer string, evidence []string, votes []Vote) {
	m.cur = h
	m.punitive = len(evidence) > 0
	for _, v := range votes {
		if !v.Signed {
			m.punitive = true
		}
	}
	m.reasons = map[string]map[string]bool{}
	m.fees = new(big.Int)
	m.proposer = proposer
	m.Minted = new(big.Int)
	m.Burnt = new(big.Int)
	ratio := m.Pi("slashRatio")

	// C14: voting weight in OPEN proposals shrinks by the slash percentage (proposals committed so far).
	for _, e := range evidence {
		keys := []string{}
		for k, p := range m.PropsAt[h-1] {
			if p.Status == "voting" {
				if _, ok := p.Voters[e]; ok {
					keys = append(keys, k)
				}
			}
		}
		sort.Strings(keys)
		for _, k := range keys {
			p, ok := m.Props[k]
			if !ok || p.Status != "voting" {
				continue
			}
			v, ok := p.Voters[e]
			if !ok {
				continue
			}
			choice := v.Choice
			if choice >= 0 {
				p.Votes[choice] -= v.Power
				v.Choice = -1
			}
			sl := v.Power * ratio / 100
			v.Power -= sl
			if v.Power <= 0 {
				delete(p.Voters, e)
			} else if choice >= 0 {
				p.Votes[choice] += v.Power
				v.Choice = choice
			}
			p.Total -= sl
			p.Majority = p.Total * 2 / 3
		}
	}
	// C14: every stake bonded to the named validator loses the slash percentage (rounded down; too small -> forfeited)
	for _, e := range evidence {
		d, ok := m.Deleg[e]
		if !ok {
			continue // unknown validator: nothing changes
		}
		var keep []*Stake
		for _, s := range d.Stakes {
			sl := s.Power * ratio / 100
			if sl < 1 {
				m.Burnt.Add(m.Burnt, new(big.Int).Mul(big.NewInt(s.Power), sim.Pow18))
				continue
			}
			s.Power -= sl
			m.Burnt.Add(m.Burnt, new(big.Int).Mul(big.NewInt(sl), sim.Pow18))
			keep = append(keep, s)
		}
		d.Stakes = keep
	}
	if len(votes) == 0 {
		return
	}
	// C13: every stake bonded to a validator that signed the previous block earns power x rewardPerPower,
	// the stakes being those recorded at the height from which consensus derived the voting power.
	rpp := m.P("rewardPerPower")
	src := m.GenesisDg
	if h >= 5 {
		src = m.DelegAt[h-4]
	}
	alt := m.DelegAt[h-4]
	if h <= 3 {
		alt = m.DelegAt[1]
	} else if h == 4 {
		alt = m.DelegAt[3]
	}
	for _, v := range votes {
		if v.Signed {
			if d, ok := alt[v.Addr]; ok && d.Total() == v.Power {
				for _, s := range d.Stakes {
					if m.RwdAlt[s.Owner] == nil {
						m.RwdAlt[s.Owner] = new(big.Int)
					}
					m.RwdAlt[s.Owner].Add(m.RwdAlt[s.Owner], new(big.Int).Mul(big.NewInt(s.Power), rpp))
				}
			}
			d, ok := src[v.Addr]
			if !ok {
				continue
			}
			if d.Total() != v.Power {
				// consensus did NOT derive this validator's power from that list (e.g. a validator the
				// application never removed from the consensus set): the rule does not speak about it.
				continue
			}
			for _, s := range d.Stakes {
				r := m.rwd(s.Owner)
				r.Issued.Add(r.Issued, new(big.Int).Mul(big.NewInt(s.Power), rpp))
			}
			continue
		}
		// C14: downtime
		d, ok := m.Deleg[v.Addr]
		if !ok {
			continue
		}
		if len(d.Missed) == 0 || d.Missed[len(d.Missed)-1] < h-1 {
			d.Missed = append(d.Missed, h-1)
		}
		w := m.Pi("signedBlocksWindow")
		s0 := h - 1 - w
		if s0 < 0 {
			s0 = 0
		}
		cnt := int64(0)
		for _, x := range d.Missed {
			if x >= s0 && x <= h-1 {
				cnt++
			}
		}
		if w-cnt < m.Pi("minSignedBlocks") {
			for _, s := range d.Stakes {
				s.Refund = h + m.Pi("lazyRewardBlocks")
				m.UnbondingPeriodAtRelease[s.TxHash+"/"+s.Owner] = m.Pi("lazyRewardBlocks")
				m.freeze(s)
			}
			delete(m.Deleg, v.Addr)
		}
	}
}

func (m *Model) rwd(a string) *Reward {
	if r, ok := m.Rwd[a]; ok {
		return r
	}
	r := &Reward{Issued: new(big.Int), Withdrawn: new(big.Int)}
	m.Rwd[a] = r
	return r
}

// ---------------------------------------------------------------------------------------------
// Transactions

// TxInfo is what the model needs to know about a delivered transaction.
type TxInfo struct {
	Type     string
	From, To string // hex
	Amount   *big.Int
	Gas      uint64
	Price    *big.Int
	Nonce    uint64
	Hash     string
	Code     uint32
	GasUsed  int64
	RetData  []byte
	SigOK    bool // the harness knows whether it signed this exact content with From's key for this chain
	// payloads
	UnstakeHash          string
	ReqAmt               *big.Int
	Start, Period, Apply int64
	Options              []string
	OptType              int32
	VoteHash             string
	Choice               int32
	Name, URL            string
	SenderPub            string
	ToIsContract         bool   // the receiver carries a native code marker (model knowledge)
	Created              string // address created by a successful deployment
	TxIdx                int
	Data                 []byte
	Logs                 []string // the implementation's EVM log events, canonical strings
	ErrLog               string
}

func (m *Model) isVal(a string) bool {
	for _, v := range m.LastVals {
		if v.Addr == a {
			return true
		}
	}
	return false
}

// EVMHook lets C17 replace the model's simple treatment of contract transactions by the reference EVM.
type EVMHook interface {
	// Handles reports whether the reference world treats this transaction as an EVM message.
	Handles(m *Model, t *TxInfo) bool
	Deliver(m *Model, t *TxInfo)
}

func (m *Model) Report(prop, kind, site, format string, a ...interface{}) {
	m.find(prop, kind, site, format, a...)
}
func (m *Model) Touch(a, why string)    { m.touch(a, why) }
func (m *Model) AddFee(x *big.Int)      { m.fees.Add(m.fees, x) }
func (m *Model) Account(a string) *Acct { return m.acct(a) }
func (m *Model) Cur() int64             { return m.cur }
func (m *Model) Proposer() string       { return m.proposer }

// DeliverTx applies one delivered transaction, conditioned on the implementation's result.
func (m *Model) DeliverTx(t *TxInfo) {
	if m.EVM != nil && m.EVM.Handles(m, t) {
		m.EVM.Deliver(m, t)
		return
	}
	if t.Code != 0 {
		return // C05: a failed transaction does not move the model
	}
	site := t.Type
	snd := m.acct(t.From)
	// ---- necessary conditions ----
	if !t.SigOK {
		m.find("C03", "accepted-without-valid-signature", site, "a %s transaction whose signature does not cover its content was executed", t.Type)
	}
	if t.Nonce != snd.Nonce {
		m.find("C04", "accepted-with-wrong-nonce", site, "%s by %s succeeded with nonce %d, account nonce is %d", t.Type, t.From, t.Nonce, snd.Nonce)
	}
	if t.Price.Cmp(m.P("gasPrice")) != 0 {
		m.find("C16", "accepted-with-wrong-price", site, "%s succeeded with gas price %s, governance price is %s", t.Type, t.Price, m.P("gasPrice"))
	}
	fee := new(big.Int).Mul(t.Price, new(big.Int).SetUint64(t.Gas))
	minFee := new(big.Int).Mul(m.P("gasPrice"), m.P("minTrxGas"))
	if fee.Cmp(minFee) < 0 {
		m.find("C16", "accepted-below-minimum-fee", site, "%s succeeded with fee %s below the minimum %s", t.Type, fee, minFee)
	}
	evm := t.Type == "deploy" || t.Type == "call" || (t.Type == "transfer" && t.ToIsContract)
	charge := fee
	if evm {
		if t.GasUsed < 0 || uint64(t.GasUsed) > t.Gas {
			m.find("C16", "gas-used-above-limit", site, "contract transaction used %d gas, limit %d", t.GasUsed, t.Gas)
		}
		charge = new(big.Int).Mul(t.Price, big.NewInt(t.GasUsed))
	} else if uint64(t.GasUsed) != t.Gas {
		m.find("C16", "native-gas-used-differs-from-limit", site, "native %s reports gas used %d, limit %d", t.Type, t.GasUsed, t.Gas)
	}
	need := new(big.Int).Add(charge, big.NewInt(0))
	if t.Type == "transfer" || t.Type == "stake" || evm {
		need.Add(need, t.Amount)
	}
	if snd.Bal.Cmp(need) < 0 {
		m.find("C02", "spent-more-than-balance", site, "%s by %s succeeded needing %s with balance %s", t.Type, t.From, need, snd.Bal)
	}
	// ---- effect ----
	snd.Nonce++
	m.touch(t.From, "fee")
	if t.Type == "transfer" || t.Type == "call" || t.Type == "deploy" {
		m.touch(t.From, "transfer")
		m.touch(t.To, "transfer")
		if t.Created != "" {
			m.touch(t.Created, "transfer")
		}
	}
	if t.Type == "stake" {
		m.touch(t.From, "stake")
	}
	if t.Type == "withdraw" {
		m.touch(t.From, "withdraw")
	}
	snd.Bal.Sub(snd.Bal, charge)
	m.fees.Add(m.fees, charge)
	h := m.cur
	switch t.Type {
	case "transfer", "call":
		snd.Bal.Sub(snd.Bal, t.Amount)
		rc := m.acct(t.To)
		rc.Bal.Add(rc.Bal, t.Amount)
	case "deploy":
		snd.Bal.Sub(snd.Bal, t.Amount)
		c := m.acct(t.Created)
		c.Bal.Add(c.Bal, t.Amount)
		c.Nonce = 1
		c.Code = t.Hash
	case "setdoc":
		snd.Name, snd.Doc = t.Name, t.URL
	case "stake":
		snd.Bal.Sub(snd.Bal, t.Amount)
		q, r := new(big.Int).QuoRem(t.Amount, sim.Pow18, new(big.Int))
		if r.Sign() != 0 || q.Sign() <= 0 {
			m.find("C11", "stake-amount-not-whole-power", site, "staking of %s succeeded", t.Amount)
		}
		if !q.IsInt64() {
			m.find("C02", "stake-power-not-representable", site, "staking of %s (power %s, more than a signed 64-bit power can hold) succeeded", t.Amount, q)
		}
		d, ok := m.Deleg[t.To]
		if !ok {
			if t.From != t.To {
				m.find("C11", "delegation-to-nobody", site, "delegation to %s, which is no delegatee, succeeded", t.To)
			}
			d = &Deleg{Addr: t.To, PubKey: t.SenderPub}
			m.Deleg[t.To] = d
		}
		d.Stakes = append(d.Stakes, &Stake{Owner: t.From, To: t.To, TxHash: t.Hash, Power: q.Int64(), Start: h + 1})
	case "unstake":
		d, ok := m.Deleg[t.To]
		if !ok {
			m.find("C12", "unstake-from-nobody", site, "unstaking from %s, which is no delegatee, succeeded", t.To)
			return
		}
		idx := -1
		for i, s := range d.Stakes {
			if s.TxHash == t.UnstakeHash {
				idx = i
				break
			}
		}
		if idx < 0 {
			m.find("C12", "unstake-of-unknown-stake", site, "unstaking of %s at %s succeeded, no such stake", t.UnstakeHash, t.To)
			return
		}
		s := d.Stakes[idx]
		if s.Owner != t.From {
			m.find("C12", "unstake-by-non-owner", site, "stake of %s released by %s", s.Owner, t.From)
		}
		d.Stakes = append(d.Stakes[:idx:idx], d.Stakes[idx+1:]...)
		period := m.Pi("lazyRewardBlocks")
		s.Refund = h + period
		m.UnbondingPeriodAtRelease[s.TxHash+"/"+s.Owner] = period
		m.freeze(s)
		if d.Self() == 0 {
			for _, o := range d.Stakes {
				o.Refund = h + period
				m.UnbondingPeriodAtRelease[o.TxHash+"/"+o.Owner] = period
				m.freeze(o)
			}
			d.Stakes = nil
		}
		if d.Total() == 0 {
			delete(m.Deleg, t.To)
		}
	case "withdraw":
		r := m.rwd(t.From)
		if t.ReqAmt.Cmp(r.Withdrawable()) > 0 {
			m.find("C13", "withdraw-above-claim", site, "withdrawal of %s succeeded, withdrawable is %s", t.ReqAmt, r.Withdrawable())
			// the same event seen from the value side: only ISSUED rewards may be minted by a withdrawal (C02's
			// "rewards withdrawn so far"); anything above is value created out of nothing
			m.find("C02", "minted-above-issued-rewards", site, "withdrawal of %s succeeded, only %s of issued reward is left to withdraw", t.ReqAmt, r.Withdrawable())
		}
		r.Withdrawn.Add(r.Withdrawn, t.ReqAmt)
		if m.RwdAlt[t.From] == nil {
			m.RwdAlt[t.From] = new(big.Int)
		}
		m.RwdAlt[t.From].Sub(m.RwdAlt[t.From], t.ReqAmt)
		snd.Bal.Add(snd.Bal, t.ReqAmt)
		m.Minted.Add(m.Minted, t.ReqAmt)
	case "proposal":
		if !m.isVal(t.From) {
			m.find("C15", "proposal-by-non-validator", site, "proposal by %s accepted; validators last reported: %v", t.From, m.LastVals)
		}
		if t.Start <= h {
			m.find("C15", "proposal-start-not-in-future", site, "start %d at height %d", t.Start, h)
		}
		if t.Period < m.Pi("minVotingPeriodBlocks") || t.Period > m.Pi("maxVotingPeriodBlocks") {
			m.find("C15", "proposal-period-out-of-range", site, "period %d", t.Period)
		}
		if t.Apply < t.Start+t.Period+m.Pi("lazyApplyingBlocks") {
			m.find("C15", "proposal-applies-too-early", site, "apply %d, end %d, lazy %d", t.Apply, t.Start+t.Period, m.Pi("lazyApplyingBlocks"))
		}
		p := &Prop{Hash: t.Hash, Status: "voting", Start: t.Start, End: t.Start + t.Period, Apply: t.Apply, Voters: map[string]*Voter{}, OptType: t.OptType, CreatedAt: h}
		for _, v := range m.LastVals {
			p.Voters[v.Addr] = &Voter{Power: v.Power, Choice: -1}
			p.Total += v.Power
		}
		p.Majority = p.Total * 2 / 3
		p.Options = append(p.Options, t.Options...)
		p.Votes = make([]int64, len(t.Options))
		m.Props[t.Hash] = p
	case "vote":
		p, ok := m.Props[t.VoteHash]
		if !ok || p.Status != "voting" {
			m.find("C15", "vote-on-unknown-proposal", site, "vote on %s accepted", t.VoteHash)
			return
		}
		v, ok := p.Voters[t.From]
		if !ok {
			m.find("C15", "vote-by-outsider", site, "vote by %s, not in the snapshot of proposal %s, accepted", t.From, t.VoteHash)
			return
		}
		if h < p.Start || h > p.End {
			m.find("C15", "vote-outside-window", site, "vote at height %d, window %d..%d", h, p.Start, p.End)
		}
		if t.Choice < 0 || int(t.Choice) >= len(p.Options) {
			m.find("C15", "vote-bad-choice", site, "choice %d of %d options", t.Choice, len(p.Options))
			return
		}
		if v.Choice >= 0 {
			p.Votes[v.Choice] -= v.Power
		}
		v.Choice = t.Choice
		p.Votes[t.Choice] += v.Power
	}
}

// ---------------------------------------------------------------------------------------------
// EndBlock + Commit

var paramKeys = []string{"version", "maxValidatorCnt", "minValidatorStake", "minDelegatorStake", "rewardPerPower", "lazyRewardBlocks", "lazyApplyingBlocks",
	"gasPrice", "minTrxGas", "maxTrxGas", "maxBlockGas", "minVotingPeriodBlocks", "maxVotingPeriodBlocks", "minSelfStakeRatio", "maxUpdatableStakeRatio",
	"maxIndividualStakeRatio", "slashRatio", "signedBlocksWindow", "minSignedBlocks"}

func parseOption(opt string) (map[string]*big.Int, bool) {
	// the implementation's hot fix: `""}` at the end is read as `"}`
	if strings.HasSuffix(opt, `""}`) {
		opt = strings.ReplaceAll(opt, `""}`, `"}`)
	}
	raw := map[string]interface{}{}
	if err := json.Unmarshal([]byte(opt), &raw); err != nil {
		return nil, false
	}
	out := map[string]*big.Int{}
	for k, v := range raw {
		s := fmt.Sprint(v)
		b, ok := new(big.Int).SetString(s, 10)
		if !ok {
			return nil, false
		}
		out[k] = b
	}
	return out, true
}

// EndBlock: proposals closing / applying, fee hand-over, refunds.
func (m *Model) EndBlock() {
	h := m.cur
	// C15: a proposal whose window closed (committed state) passes iff some option holds >= 2/3 of the recorded power.
	var keys []string
	for k := range m.PropsAt[h-1] {
		keys = append(keys, k)
	}
	sort.Strings(keys)
	for _, k := range keys {
		cp := m.PropsAt[h-1][k]
		if cp.Status != "voting" || cp.End >= h {
			continue
		}
		// tally of the committed proposal (votes are impossible after End, slashing after the close is not part of the tally)
		p := cp.clone()
		best := -1
		for i := range p.Votes {
			if best < 0 || p.Votes[i] > p.Votes[best] {
				best = i
			}
		}
		delete(m.Props, k)
		if best >= 0 && p.Votes[best] >= p.Majority {
			p.Status = "frozen"
			p.Major = p.Options[best]
			for i := range p.Votes {
				if p.Votes[i] == p.Votes[best] {
					p.MajorCands = append(p.MajorCands, p.Options[i])
				}
			}
			p.HasMajor = true
			m.Props[k] = p
		}
	}
	// applying: frozen proposals of the committed state whose applying height is reached, in key order;
	// fields an option leaves unset keep their previous values (also relative to another proposal applied in the same block).
	base := m.Params
	for _, k := range keys {
		cp := m.PropsAt[h-1][k]
		if cp.Status != "frozen" || cp.Apply > h {
			continue
		}
		delete(m.Props, k)
		if !cp.HasMajor || cp.OptType != 0x0101 {
			continue
		}
		opt, ok := parseOption(cp.Major)
		if !ok {
			continue
		}
		np := cloneParams(base)
		for f, v := range opt {
			if _, known := np[f]; known && v.Sign() != 0 {
				np[f] = v
			}
		}
		m.Pending = np
		base = np
	}
	// C16: the proposer is credited with exactly the fees of the block's successful transactions
	if m.proposer != "" && m.fees.Sign() > 0 {
		a := m.acct(m.proposer)
		m.touch(m.proposer, "proposer")
		a.Bal.Add(a.Bal, m.fees)
	} else {
		m.Burnt.Add(m.Burnt, m.fees)
	}
	// C12: stakes whose waiting period is over (committed unbonding stakes) are credited back to their owners, in full, once
	var rest []*Stake
	for _, f := range m.Frozen {
		committed := false
		for _, c := range m.FrozenAt[h-1] {
			if c == f {
				committed = true
			}
		}
		if committed && f.Refund <= h {
			a := m.acct(f.Owner)
			m.touch(f.Owner, "refund")
			a.Bal.Add(a.Bal, new(big.Int).Mul(big.NewInt(f.Power), sim.Pow18))
			continue
		}
		rest = append(rest, f)
	}
	m.Frozen = rest
}

// Commit finishes block h: parameter switch, snapshots.
func (m *Model) Commit() {
	h := m.cur
	m.H = h
	if m.Pending != nil {
		m.Params = m.Pending
		m.Pending = nil
	}
	dg := map[string]*Deleg{}
	for k, d := range m.Deleg {
		dg[k] = d.clone()
	}
	m.DelegAt[h] = dg
	pr := map[string]*Prop{}
	for k, p := range m.Props {
		pr[k] = p.clone()
	}
	m.PropsAt[h] = pr
	m.FrozenAt[h] = append([]*Stake{}, m.Frozen...)
	m.ParamsAt[h] = cloneParams(m.Params)
}

// ---------------------------------------------------------------------------------------------
// Comparison with the implementation

func paramsFromJSON(s string) map[string]string {
	out := map[string]string{}
	raw := map[string]interface{}{}
	if json.Unmarshal([]byte(s), &raw) != nil {
		return out
	}
	for k, v := range raw {
		out[k] = fmt.Sprint(v)
	}
	return out
}

// Compare checks the implementation's committed state against the model; each mismatch is attributed
// to the property that owns the component.
func (m *Model) Compare(st *sim.State) {
	h := m.H
	// balances / nonces / docs
	addrs := map[string]bool{}
	for a := range m.Acct {
		addrs[a] = true
	}
	for a := range st.Accounts {
		addrs[a] = true
	}
	var as []string
	for a := range addrs {
		as = append(as, a)
	}
	sort.Strings(as)
	for _, a := range as {
		ma, ok := m.Acct[a]
		if !ok {
			ma = &Acct{Bal: new(big.Int)}
		}
		ia := st.Accounts[a]
		ib := st.Balance(a)
		if ma.Bal.Cmp(ib) != 0 {
			m.find("BAL", "balance-mismatch", "account", "height %d account %s: implementation %s, model %s (diff %s); model moved this balance because of: [%s]", h, a, ib, ma.Bal, new(big.Int).Sub(ib, ma.Bal), m.reasonsOf(a))
			m.Findings[len(m.Findings)-1].Reasons = m.reasonsOf(a)
			if cs, ok := m.Collided[a]; ok {
				lost := new(big.Int).Mul(big.NewInt(cs.Power), sim.Pow18)
				if new(big.Int).Sub(ma.Bal, ib).Cmp(lost) == 0 {
					m.Findings[len(m.Findings)-1].Site = "unbonding-key-collision:stakes-sharing-txhash-" + cs.TxHash[:8]
					m.LostToCollision = append(m.LostToCollision, lost)
				}
			}
			m.acct(a).Bal = new(big.Int).Set(ib)
		}
		if ma.Nonce != ia.Nonce {
			m.find("C04", "nonce-mismatch", "account", "height %d account %s: implementation nonce %d, model %d", h, a, ia.Nonce, ma.Nonce)
			m.acct(a).Nonce = ia.Nonce
		}
		if ma.Name != ia.Name || ma.Doc != ia.Doc {
			m.find("C05", "document-mismatch", "account", "height %d account %s: name/doc %q/%q, model %q/%q", h, a, ia.Name, ia.Doc, ma.Name, ma.Doc)
		}
	}
	// delegatees (owned by C11; in a block with evidence or missed signatures also by C14: the slashing / jailing rule)
	nBefore := len(m.Findings)
	defer func() {
		if !m.punitive {
			return
		}
		for _, f := range append([]Finding{}, m.Findings[nBefore:]...) {
			// ... and the offender's weight in open proposals: voter record and per-option tally after the punishment
			if f.Prop == "C11" || (f.Prop == "C12" && strings.HasPrefix(f.Kind, "unbonding-stake")) || (f.Prop == "C15" && (f.Kind == "tally-mismatch" || f.Kind == "voter-mismatch")) {
				f.Prop = "C14"
				m.Findings = append(m.Findings, f)
			}
		}
	}()
	ds := map[string]bool{}
	for a := range m.Deleg {
		ds[a] = true
	}
	for a := range st.Delegatees {
		ds[a] = true
	}
	var dl []string
	for a := range ds {
		dl = append(dl, a)
	}
	sort.Strings(dl)
	for _, a := range dl {
		md, mok := m.Deleg[a]
		id, iok := st.Delegatees[a]
		if mok != iok {
			if iok && id.Total == 0 && len(id.Stakes) == 0 {
				// an emptied delegatee record (all stakes forfeited by slashing) is kept by the implementation: no stake, no power
				continue
			}
			m.find("C11", "delegatee-presence", "delegatee", "height %d delegatee %s: implementation present=%v (total %d), model present=%v", h, a, iok, id.Total, mok)
			continue
		}
		if !mok {
			continue
		}
		if id.Total != md.Total() || id.Self != md.Self() {
			m.find("C11", "power-mismatch", "delegatee", "height %d delegatee %s: implementation self/total %d/%d, model %d/%d", h, a, id.Self, id.Total, md.Self(), md.Total())
		}
		if len(id.Stakes) != len(md.Stakes) {
			m.find("C11", "stake-list-mismatch", "delegatee", "height %d delegatee %s: implementation holds %d stakes, model %d", h, a, len(id.Stakes), len(md.Stakes))
			continue
		}
		for i, s := range md.Stakes {
			is := id.Stakes[i]
			if is.Owner != s.Owner || is.To != s.To || is.TxHash != s.TxHash || is.Power != s.Power {
				m.find("C11", "stake-mismatch", "delegatee", "height %d delegatee %s stake #%d: implementation %+v, model %+v", h, a, i, is, *s)
			}
		}
	}
	// unbonding stakes
	mf := map[string]int{}
	for _, f := range m.Frozen {
		mf[fmt.Sprintf("%s/%s/%s/%d/%d", f.TxHash, f.Owner, f.To, f.Power, f.Refund)]++
	}
	imf := map[string]int{}
	for _, f := range st.Frozen {
		imf[fmt.Sprintf("%s/%s/%s/%d/%d", f.TxHash, f.Owner, f.To, f.Power, f.Refund)]++
	}
	frozenBad := false
	collSite := func(k string) string {
		for _, cs := range m.Collided {
			if strings.HasPrefix(k, cs.TxHash+"/") {
				return "unbonding-key-collision:stakes-sharing-txhash-" + cs.TxHash[:8]
			}
		}
		return "frozen"
	}
	for k, n := range mf {
		if imf[k] != n {
			frozenBad = true
			m.find("C12", "unbonding-stake-missing", collSite(k), "height %d: unbonding stake %s: model has %d, implementation %d", h, k, n, imf[k])
		}
	}
	for k, n := range imf {
		if mf[k] != n {
			frozenBad = true
			m.find("C12", "unbonding-stake-unexpected", collSite(k), "height %d: unbonding stake %s: implementation has %d, model %d", h, k, n, mf[k])
		}
	}
	if frozenBad {
		// re-synchronise the unbonding list so that only new divergences are reported
		m.Frozen = nil
		for _, f := range st.Frozen {
			m.Frozen = append(m.Frozen, &Stake{Owner: f.Owner, To: f.To, TxHash: f.TxHash, Power: f.Power, Start: f.Start, Refund: f.Refund})
		}
		m.FrozenAt[h] = append([]*Stake{}, m.Frozen...)
	}
	// rewards: withdrawable = issued - withdrawn
	rs := map[string]bool{}
	for a := range m.Rwd {
		rs[a] = true
	}
	for a := range st.Rewards {
		rs[a] = true
	}
	for a := range rs {
		want := new(big.Int)
		if r, ok := m.Rwd[a]; ok {
			want = r.Withdrawable()
		}
		got := new(big.Int)
		if r, ok := st.Rewards[a]; ok {
			got, _ = new(big.Int).SetString(r.Cumulated, 10)
		}
		altv := new(big.Int)
		if x, ok := m.RwdAlt[a]; ok {
			altv = x
		}
		if want.Cmp(got) != 0 {
			site := "reward"
			if h <= 4 && altv.Cmp(got) == 0 {
				site = "blocks<=4:stake-list-of-version-1-instead-of-genesis"
			}
			m.find("C13", "reward-mismatch", site, "height %d account %s: withdrawable reward is %s, model (issued - withdrawn) %s", h, a, got, want)
			// re-synchronise so that only NEW divergences are reported later
			r := m.rwd(a)
			r.Issued = new(big.Int).Add(r.Withdrawn, got)
		}
		m.RwdAlt[a] = new(big.Int).Set(got)
	}
	// proposals
	ps := map[string]bool{}
	for k := range m.Props {
		ps[k] = true
	}
	for k := range st.Proposals {
		ps[k] = true
	}
	for k := range ps {
		mp, mok := m.Props[k]
		ip, iok := st.Proposals[k]
		if mok != iok {
			m.find("C15", "proposal-presence", "proposal", "height %d proposal %s: implementation present=%v status %q, model present=%v", h, k, iok, ip.Status, mok)
			continue
		}
		if mp.Status != ip.Status {
			m.find("C15", "proposal-status", "proposal", "height %d proposal %s: status %q, model %q", h, k, ip.Status, mp.Status)
			continue
		}
		if mp.Status == "frozen" {
			okWinner := false
			for _, c := range mp.MajorCands {
				if c == ip.Major {
					okWinner = true
				}
			}
			if len(mp.MajorCands) == 0 && ip.Major == mp.Major {
				okWinner = true
			}
			if !okWinner {
				m.find("C15", "proposal-winner", "proposal", "height %d proposal %s: winning option %q, model %q", h, k, ip.Major, mp.Major)
			} else {
				mp.Major = ip.Major // ties are open: follow the implementation's pick
				mp.MajorCands = nil
			}
			continue
		}
		if ip.Total != mp.Total || ip.Majority != mp.Majority {
			m.find("C14", "proposal-power", "proposal", "height %d proposal %s: total/majority %d/%d, model %d/%d", h, k, ip.Total, ip.Majority, mp.Total, mp.Majority)
		}
		vs := map[string]bool{}
		for a := range mp.Voters {
			vs[a] = true
		}
		for a := range ip.Voters {
			vs[a] = true
		}
		for a := range vs {
			mv, ok1 := mp.Voters[a]
			iv, ok2 := ip.Voters[a]
			if ok1 != ok2 || (ok1 && (mv.Power != iv.Power || mv.Choice != iv.Choice)) {
				m.find("C15", "voter-mismatch", "proposal", "height %d proposal %s voter %s: implementation %+v (present %v), model %+v (present %v)", h, k, a, iv, ok2, mv, ok1)
			}
		}
		// option tallies by option text (the implementation may reorder options)
		mt := map[string]int64{}
		for i, o := range mp.Options {
			mt[o] += mp.Votes[i]
		}
		it := map[string]int64{}
		for i, o := range ip.Options {
			it[o] += ip.Votes[i]
		}
		if fmt.Sprint(mt) != fmt.Sprint(it) {
			m.find("C15", "tally-mismatch", "proposal", "height %d proposal %s: tallies %v, model %v", h, k, it, mt)
		}
	}
	// parameters: committed (query) == active (in memory) == model
	cp := paramsFromJSON(st.Params)
	ap := paramsFromJSON(st.Active)
	for _, k := range paramKeys {
		want := m.Params[k].String()
		if cp[k] != want {
			m.find("C15", "params-mismatch", "gov_params:"+k, "height %d committed parameter %s = %s, model %s", h, k, cp[k], want)
		}
		if ap[k] != cp[k] {
			m.find("C15", "active-params-differ-from-query", "gov_params:"+k, "height %d parameter %s: in force %s, gov_params query %s", h, k, ap[k], cp[k])
		}
	}
}

// Snapshot renders the model in the implementation's dump format (used by C19).
func (m *Model) TakeFindings() []Finding {
	f := m.Findings
	m.Findings = nil
	return f
}

var _ = bytes.Compare
