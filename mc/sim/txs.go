package sim

import (
	"encoding/hex"
	"fmt"
	"math/big"
	"strings"

	ethcrypto "github.com/ethereum/go-ethereum/crypto"
	"github.com/rigochain/rigo-go/ctrlers/stake"
	ctrlertypes "github.com/rigochain/rigo-go/ctrlers/types"
	rtypes "github.com/rigochain/rigo-go/types"
	abcitypes "github.com/tendermint/tendermint/abci/types"
	tmtypes "github.com/tendermint/tendermint/types"
)

// TxSpec is a symbolic transaction template; it is resolved against the running chain when it is
// delivered (nonce, current gas price, stake / proposal / contract references, balance expressions).
type TxSpec struct {
	Type string `json:"type"` // transfer stake unstake withdraw proposal vote deploy call setdoc
	From string `json:"from"`
	To   string `json:"to,omitempty"` // wallet name, "zero", "contract:<i>" (i-th deployed), "hex:<addr>"

	Amount   string `json:"amount,omitempty"`
	Gas      uint64 `json:"gas,omitempty"`      // 0 = minimum for the type
	GasExpr  string `json:"gasExpr,omitempty"`  // "min-1" "min" "min+1" "big"
	Price    string `json:"price,omitempty"`    // "" = active price; "p-1" "p+1" "0" "2^255" or decimal
	NonceOff int    `json:"nonceOff,omitempty"` // added to the tracked nonce
	FixNonce bool   `json:"fixNonce,omitempty"` // use NonceVal as the absolute nonce and a fixed time stamp (a CONCRETE signed tx: identical bytes whenever delivered)
	NonceVal uint64 `json:"nonceVal,omitempty"`
	SignBy   string `json:"signBy,omitempty"`  // sign with another wallet's key
	BadSig   string `json:"badSig,omitempty"`  // "flip" "trunc" "empty" "v"
	ChainID  string `json:"chainId,omitempty"` // sign for another chain id

	StakeOwner string `json:"stakeOwner,omitempty"` // unstake: whose stake ...
	StakeTo    string `json:"stakeTo,omitempty"`    // ... delegated to whom ("" = any)
	StakeIdx   int    `json:"stakeIdx,omitempty"`   // i-th such stake created so far (genesis stakes first)
	RawHash    string `json:"rawHash,omitempty"`    // explicit tx hash hex (unstake / vote)

	ReqAmt string `json:"reqAmt,omitempty"` // withdraw

	PropStartOff int64    `json:"propStartOff,omitempty"` // start voting height = current height + off
	PropPeriod   int64    `json:"propPeriod,omitempty"`
	PropApplyOff int64    `json:"propApplyOff,omitempty"` // applying height = end + off
	PropOptions  []string `json:"propOptions,omitempty"`
	PropType     int32    `json:"propType,omitempty"` // 0 = governance parameters

	PropIdx int   `json:"propIdx,omitempty"` // vote: i-th successful proposal
	Choice  int32 `json:"choice,omitempty"`

	Data string `json:"data,omitempty"` // hex call data / init code
	Name string `json:"name,omitempty"`
	URL  string `json:"url,omitempty"`

	// CheckOnly: the transaction is submitted to CheckTx at its position in the block and never delivered
	CheckOnly bool `json:"checkOnly,omitempty"`

	Tag string `json:"tag,omitempty"`
}

func (s TxSpec) String() string {
	t := s.Tag
	if t == "" {
		t = fmt.Sprintf("%s %s->%s amt=%s", s.Type, s.From, s.To, s.Amount)
	}
	return t
}

// Env is what a template is resolved against.
type Env struct {
	Nonce    uint64
	Balance  *big.Int // sender balance (best knowledge), may be nil
	GasPrice *big.Int
	MinGas   uint64
	Height   int64 // height of the block the tx goes into
}

func (c *Chain) ResolveTo(to string) rtypes.Address {
	switch {
	case to == "" || to == "zero":
		return rtypes.ZeroAddress()
	case strings.HasPrefix(to, "contract:"):
		var i int
		fmt.Sscanf(to, "contract:%d", &i)
		if i < len(c.Deployed) {
			return c.Deployed[i]
		}
		return W("no-such-contract").Addr
	case strings.HasPrefix(to, "hex:"):
		b, _ := hex.DecodeString(to[4:])
		return b
	}
	return W(to).Addr
}

func (c *Chain) FindStake(owner, to string, idx int) *StakeRef {
	n := 0
	for i := range c.Stakes {
		s := &c.Stakes[i]
		if s.Owner == owner && (to == "" || s.To == to) {
			if n == idx {
				return s
			}
			n++
		}
	}
	return nil
}

const (
	IntrinsicCall   = 21000
	IntrinsicCreate = 53000
)

// Build resolves the template into a signed transaction.
func (c *Chain) Build(s TxSpec, env Env) *ctrlertypes.Trx {
	from := W(s.From)
	price := new(big.Int).Set(env.GasPrice)
	switch s.Price {
	case "":
	case "p-1":
		price.Sub(price, big.NewInt(1))
	case "p+1":
		price.Add(price, big.NewInt(1))
	default:
		price = ParseAmount(s.Price, big.NewInt(0), big.NewInt(0))
	}
	min := env.MinGas
	var payload ctrlertypes.ITrxPayload
	var typ int32
	to := c.ResolveTo(s.To)
	data, _ := hex.DecodeString(s.Data)
	switch s.Type {
	case "transfer":
		typ = ctrlertypes.TRX_TRANSFER
	case "stake":
		typ = ctrlertypes.TRX_STAKING
	case "unstake":
		typ = ctrlertypes.TRX_UNSTAKING
		var h []byte
		if s.RawHash != "" {
			h, _ = hex.DecodeString(s.RawHash)
		} else if st := c.FindStake(s.StakeOwner, s.StakeTo, s.StakeIdx); st != nil {
			h = st.TxHash
			if s.To == "" {
				to = W(st.To).Addr
			}
		} else {
			h = make([]byte, 32)
			h[0] = 0xEE
		}
		payload = &ctrlertypes.TrxPayloadUnstaking{TxHash: h}
	case "withdraw":
		typ = ctrlertypes.TRX_WITHDRAW
		bal := env.Balance
		if bal == nil {
			bal = big.NewInt(0)
		}
		if s.ReqAmt == "rwd" || s.ReqAmt == "rwd+1" { // everything withdrawable as of the last commit (+1)
			amt := c.CommittedReward(s.From)
			if s.ReqAmt == "rwd+1" {
				amt.Add(amt, big.NewInt(1))
			}
			payload = &ctrlertypes.TrxPayloadWithdraw{ReqAmt: U256(amt)}
			break
		}
		payload = &ctrlertypes.TrxPayloadWithdraw{ReqAmt: U256(ParseAmount(s.ReqAmt, bal, big.NewInt(0)))}
	case "proposal":
		typ = ctrlertypes.TRX_PROPOSAL
		start := env.Height + s.PropStartOff
		var opts [][]byte
		for _, o := range s.PropOptions {
			opts = append(opts, []byte(o))
		}
		pt := s.PropType
		if pt == 0 {
			pt = 0x0101 // PROPOSAL_GOVPARAMS
		}
		payload = &ctrlertypes.TrxPayloadProposal{Message: "p", StartVotingHeight: start, VotingPeriodBlocks: s.PropPeriod,
			ApplyingHeight: start + s.PropPeriod + s.PropApplyOff, OptType: pt, Options: opts}
	case "vote":
		typ = ctrlertypes.TRX_VOTING
		var h []byte
		if s.RawHash != "" {
			h, _ = hex.DecodeString(s.RawHash)
		} else if s.PropIdx < len(c.Props) {
			h = c.Props[s.PropIdx]
		} else {
			h = make([]byte, 32)
			h[0] = 0xDD
		}
		payload = &ctrlertypes.TrxPayloadVoting{TxHash: h, Choice: s.Choice}
	case "deploy":
		typ = ctrlertypes.TRX_CONTRACT
		to = rtypes.ZeroAddress()
		payload = &ctrlertypes.TrxPayloadContract{Data: data}
		if min < IntrinsicCreate+200000 {
			min = IntrinsicCreate + 200000
		}
	case "call":
		typ = ctrlertypes.TRX_CONTRACT
		payload = &ctrlertypes.TrxPayloadContract{Data: data}
		if min < IntrinsicCall+150000 {
			min = IntrinsicCall + 150000
		}
	case "setdoc":
		typ = ctrlertypes.TRX_SETDOC
		payload = &ctrlertypes.TrxPayloadSetDoc{Name: s.Name, URL: s.URL}
	default:
		panic("unknown tx type " + s.Type)
	}
	gas := s.Gas
	if gas == 0 {
		gas = min
		switch s.GasExpr {
		case "min-1":
			gas = min - 1
		case "min+1":
			gas = min + 1
		case "big":
			gas = min + 1000000
		case "1R": // a fee of at least 10^18: with an amount close to 2^256 the sum fee+amount wraps around
			if price.Sign() > 0 {
				gas = new(big.Int).Div(Pow18, price).Uint64() + 1
			}
		}
	}
	fee := new(big.Int).Mul(price, new(big.Int).SetUint64(gas))
	bal := env.Balance
	if bal == nil {
		bal = big.NewInt(0)
	}
	amt := ParseAmount(s.Amount, bal, fee)
	tm := (c.Gen.GenTime + env.Height) * 1_000_000_000
	nonce := uint64(int64(env.Nonce) + int64(s.NonceOff))
	if s.FixNonce {
		tm = c.Gen.GenTime * 1_000_000_000
		nonce = s.NonceVal
	}
	tx := &ctrlertypes.Trx{
		Version: 1, Time: tm, Nonce: nonce,
		From: from.Addr, To: to, Amount: U256(amt), Gas: gas, GasPrice: U256(price), Type: typ, Payload: payload,
	}
	signer := from
	if s.SignBy != "" {
		signer = W(s.SignBy)
	}
	chain := c.Gen.ChainID
	if s.ChainID != "" {
		chain = s.ChainID
	}
	signer.Sign(tx, chain)
	switch s.BadSig {
	case "flip":
		tx.Sig[7] ^= 0x40
	case "trunc":
		tx.Sig = tx.Sig[:64]
	case "empty":
		tx.Sig = nil
	case "v":
		tx.Sig[64] ^= 1
	}
	return tx
}

// ActiveGasPrice / ActiveMinGas read the parameters currently in force (read-only accessor).
func (c *Chain) ActiveGasPrice() *big.Int {
	_, _, g, _ := c.App.VerifCtrlers()
	return g.GasPrice().ToBig()
}

func (c *Chain) ActiveMinGas() uint64 {
	_, _, g, _ := c.App.VerifCtrlers()
	return g.MinTrxGas()
}

// CommittedBalance reads the sender's balance as of the last commit (immutable tree, read-only).
func (c *Chain) CommittedBalance(name string) *big.Int {
	a, _, _, _ := c.App.VerifCtrlers()
	return a.ReadAccount(W(name).Addr).GetBalance().ToBig()
}

// CommittedReward reads the sender's withdrawable reward as of the last commit (immutable tree, read-only).
func (c *Chain) CommittedReward(name string) *big.Int {
	_, st, _, _ := c.App.VerifCtrlers()
	out := big.NewInt(0)
	want := hx(W(name).Addr)
	_ = st.VerifReadRewardsAt(c.Height, func(r *stake.Reward) {
		if hx(r.Address()) == want {
			out = r.GetCumulated().ToBig()
		}
	})
	return out
}

// EnvFor builds the default resolution environment for a template. bal (may be nil) overrides the
// committed balance with the caller's better knowledge of the in-block balance.
func (c *Chain) EnvFor(s TxSpec, bal *big.Int) Env {
	if bal == nil {
		bal = c.CommittedBalance(s.From)
	}
	return Env{Nonce: c.Nonces[s.From], Balance: bal, GasPrice: c.ActiveGasPrice(), MinGas: c.ActiveMinGas(), Height: c.Height + 1}
}

// TxOutcome is the harness-side record of one delivered template.
type TxOutcome struct {
	Spec   TxSpec
	Tx     *ctrlertypes.Trx
	Bytes  []byte
	Hash   []byte
	Rec    CallRec
	Code   uint32
	GasUse int64
	Data   []byte
	Events []abcitypes.Event
}

// Deliver resolves, signs, encodes and delivers a template, and updates the wallet-side bookkeeping
// (nonce, created stakes / proposals / contracts) from the RESULT the application returned.
func (c *Chain) Deliver(s TxSpec, bal *big.Int) TxOutcome {
	tx := c.Build(s, c.EnvFor(s, bal))
	bz, xerr := tx.Encode()
	if xerr != nil {
		panic(xerr)
	}
	return c.DeliverBuilt(s, tx, bz)
}

func (c *Chain) DeliverBuilt(s TxSpec, tx *ctrlertypes.Trx, bz []byte) TxOutcome {
	rec, resp := c.DeliverRaw(bz, s.String())
	out := TxOutcome{Spec: s, Tx: tx, Bytes: bz, Hash: tmtypes.Tx(bz).Hash(), Rec: rec, Code: resp.Code, GasUse: resp.GasUsed, Data: resp.Data, Events: resp.Events}
	if rec.Panic == "" && resp.Code == 0 {
		c.BlockTxOK++
		c.Nonces[s.From]++
		switch s.Type {
		case "stake":
			to := s.To
			c.Stakes = append(c.Stakes, StakeRef{Owner: s.From, To: to, TxHash: out.Hash, Power: new(big.Int).Div(tx.Amount.ToBig(), Pow18).Int64(), Height: c.Height + 1})
		case "proposal":
			c.Props = append(c.Props, out.Hash)
		case "deploy":
			c.Deployed = append(c.Deployed, append([]byte{}, resp.Data...))
		}
	}
	return out
}

func (c *Chain) Check(s TxSpec, bal *big.Int) CallRec {
	tx := c.Build(s, c.EnvFor(s, bal))
	bz, _ := tx.Encode()
	return c.CheckTxRaw(bz, s.String())
}

// CreateAddress is the EVM CREATE address of (sender, nonce).
func CreateAddress(from string, nonce uint64) []byte {
	a := ethcrypto.CreateAddress(W(from).Addr.Array20(), nonce)
	return a[:]
}
