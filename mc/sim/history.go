package sim

import (
	"fmt"
	"os"
	"path/filepath"
	"sync/atomic"
)

// Block is one block of a history: the free consensus inputs plus the transaction templates.
type Block struct {
	Opts BlockOpts `json:"opts"`
	Txs  []TxSpec  `json:"txs,omitempty"`
}

type History struct {
	Gen    *Genesis `json:"gen"`
	Blocks []Block  `json:"blocks"`
}

func (h History) Clone() History {
	n := History{Gen: h.Gen}
	for _, b := range h.Blocks {
		nb := Block{Opts: b.Opts}
		nb.Txs = append(nb.Txs, b.Txs...)
		n.Blocks = append(n.Blocks, nb)
	}
	return n
}

// Hooks let a check inject traffic, restart or observe at every gap between consensus calls.
type Hooks struct {
	// Gap is called between consensus calls. kind ∈ {pre-begin, post-begin, post-tx, post-end, post-commit}; idx = tx index for post-tx.
	Gap func(c *Chain, h int64, kind string, idx int)
	// RestartAfter: restart (copy directory, open new application, Info) after the commit of these heights.
	RestartAfter map[int64]bool
	// AfterTx is called with every delivered template's outcome.
	AfterTx func(c *Chain, h int64, out TxOutcome)
	// NoStates: skip the per-height state dumps.
	NoStates bool
	// Contracts to include in state dumps (besides deployed ones).
	StopAtHeight int64
}

type RunResult struct {
	Chain    *Chain
	States   []*State // States[h-1] = state committed at h
	Outcomes [][]TxOutcome
	Infos    []CallRec // Info answers after each restart
	Dirs     []string
	Err      string // harness-level problem (not a property violation)
}

var runSeq int64

func NewDir(base, tag string) string {
	return filepath.Join(base, fmt.Sprintf("%s-%d", tag, atomic.AddInt64(&runSeq, 1)))
}

// Run executes a history on a fresh application under base (a scratch directory).
func Run(base string, hist History, hk *Hooks) *RunResult {
	if hk == nil {
		hk = &Hooks{}
	}
	res := &RunResult{}
	dir := NewDir(base, "run")
	res.Dirs = append(res.Dirs, dir)
	c, err := NewChain(dir, hist.Gen)
	if err != nil {
		res.Err = err.Error()
		return res
	}
	res.Chain = c
	c.Start()
	RunBlocks(base, res, hist.Blocks, hk)
	return res
}

// RunBlocks continues res.Chain with the given blocks.
func RunBlocks(base string, res *RunResult, blocks []Block, hk *Hooks) {
	gap := func(c *Chain, h int64, kind string, idx int) {
		if hk.Gap != nil {
			hk.Gap(c, h, kind, idx)
		}
	}
	for _, b := range blocks {
		c := res.Chain
		if c.Dead {
			return
		}
		h := c.Height + 1
		if hk.StopAtHeight > 0 && h > hk.StopAtHeight {
			return
		}
		gap(c, h, "pre-begin", 0)
		c.BeginBlock(b.Opts)
		if c.Dead {
			return
		}
		gap(c, h, "post-begin", 0)
		var outs []TxOutcome
		for i, t := range b.Txs {
			if t.CheckOnly {
				// a transaction that reaches the mempool check only and is never included in a block
				c.Check(t, nil)
				gap(c, h, "post-tx", i)
				continue
			}
			out := c.Deliver(t, nil)
			outs = append(outs, out)
			if hk.AfterTx != nil {
				hk.AfterTx(c, h, out)
			}
			gap(c, h, "post-tx", i)
		}
		res.Outcomes = append(res.Outcomes, outs)
		c.EndBlock()
		if c.Dead {
			return
		}
		gap(c, h, "post-end", 0)
		c.Commit()
		if c.Dead {
			return
		}
		if !hk.NoStates {
			st, err := c.DumpState(0, append(append([][]byte{}, c.Deployed...), c.Watch...))
			if err != nil {
				res.Err = "dump: " + err.Error()
				return
			}
			res.States = append(res.States, st)
		}
		gap(c, h, "post-commit", 0)
		if hk.RestartAfter[h] {
			nd := NewDir(base, "restart")
			res.Dirs = append(res.Dirs, nd)
			n, err := c.Reopen(nd, true)
			if err != nil {
				res.Err = "reopen: " + err.Error()
				if _, harness := err.(*SnapshotError); !harness {
					c.Dead, c.DeadReason = true, "reopen failed: "+err.Error()
				}
				return
			}
			n.Log = c.Log
			res.Chain = n
			res.Infos = append(res.Infos, n.Info())
		}
	}
}

func (r *RunResult) Cleanup() {
	if r.Chain != nil {
		r.Chain.Close()
	}
	for _, d := range r.Dirs {
		_ = os.RemoveAll(d)
	}
}
