package sim

import (
	"encoding/hex"
	"encoding/json"
	"fmt"
	"math/big"
	"os"
	"path/filepath"
	"runtime"
	"sort"
	"strings"
	"time"

	cfg "github.com/rigochain/rigo-go/cmd/config"
	ctrlertypes "github.com/rigochain/rigo-go/ctrlers/types"
	"github.com/rigochain/rigo-go/node"
	abcitypes "github.com/tendermint/tendermint/abci/types"
	cryptoenc "github.com/tendermint/tendermint/crypto/encoding"
	"github.com/tendermint/tendermint/crypto/secp256k1"
	tmjson "github.com/tendermint/tendermint/libs/json"
	"github.com/tendermint/tendermint/libs/log"
	tmproto "github.com/tendermint/tendermint/proto/tendermint/types"
	tmtypes "github.com/tendermint/tendermint/types"
)

// Genesis describes the chain's initial configuration.
type Genesis struct {
	ChainID  string
	Vals     []string          // wallet names of genesis validators
	Powers   []int64           // their powers
	Holders  map[string]string // wallet name -> balance (amount expression)
	Params   map[string]string // overrides of the governance parameters (JSON field name -> value)
	GenTime  int64
	holderSq []string
}

var DefaultParams = map[string]string{
	"version":                 "1",
	"maxValidatorCnt":         "3",
	"minValidatorStake":       "2000000000000000000",
	"minDelegatorStake":       "0",
	"rewardPerPower":          "7",
	"lazyRewardBlocks":        "2",
	"lazyApplyingBlocks":      "1",
	"gasPrice":                "3",
	"minTrxGas":               "5",
	"maxTrxGas":               "18446744073709551615",
	"maxBlockGas":             "18446744073709551615",
	"minVotingPeriodBlocks":   "1",
	"maxVotingPeriodBlocks":   "3",
	"minSelfStakeRatio":       "50",
	"maxUpdatableStakeRatio":  "100",
	"maxIndividualStakeRatio": "10000000",
	"slashRatio":              "50",
	"signedBlocksWindow":      "3",
	"minSignedBlocks":         "2",
}

func (g *Genesis) ParamsJSON() string {
	m := map[string]string{}
	for k, v := range DefaultParams {
		m[k] = v
	}
	for k, v := range g.Params {
		m[k] = v
	}
	ks := make([]string, 0, len(m))
	for k := range m {
		ks = append(ks, k)
	}
	sort.Strings(ks)
	var sb strings.Builder
	sb.WriteByte('{')
	for i, k := range ks {
		if i > 0 {
			sb.WriteByte(',')
		}
		fmt.Fprintf(&sb, "%q:%q", k, m[k])
	}
	sb.WriteByte('}')
	return sb.String()
}

func (g *Genesis) Param(k string) *big.Int {
	v, ok := g.Params[k]
	if !ok {
		v = DefaultParams[k]
	}
	b, _ := new(big.Int).SetString(v, 10)
	return b
}

func (g *Genesis) holderNames() []string {
	ks := make([]string, 0, len(g.Holders))
	for k := range g.Holders {
		ks = append(ks, k)
	}
	sort.Strings(ks)
	return ks
}

func (g *Genesis) appState() []byte {
	var sb strings.Builder
	sb.WriteString(`{"assetHolders":[`)
	for i, n := range g.holderNames() {
		if i > 0 {
			sb.WriteByte(',')
		}
		fmt.Fprintf(&sb, `{"address":"%s","balance":"%s"}`, W(n).Hex(), ParseAmount(g.Holders[n], big.NewInt(0), big.NewInt(0)).String())
	}
	sb.WriteString(`],"govParams":`)
	sb.WriteString(g.ParamsJSON())
	sb.WriteString(`}`)
	return []byte(sb.String())
}

// CallRec is one ABCI call and the canonical form of its response.
type CallRec struct {
	Kind   string `json:"kind"` // Info InitChain BeginBlock DeliverTx EndBlock Commit CheckTx Query
	H      int64  `json:"h"`
	Idx    int    `json:"idx,omitempty"`
	Req    string `json:"req,omitempty"`
	Resp   string `json:"resp"` // only what the properties list: code/data/gas, validator updates, app hash
	Code   uint32 `json:"code,omitempty"`
	Log    string `json:"log,omitempty"`
	Panic  string `json:"panic,omitempty"`
	Inject bool   `json:"inject,omitempty"` // not a consensus call (CheckTx / Query traffic)
}

type StakeRef struct {
	Owner, To string // wallet names
	TxHash    []byte
	Power     int64
	Height    int64
}

type Chain struct {
	// API: when set, the ABCI calls go through it (e.g. the node's local client) instead of straight to App.
	API      abcitypes.Application
	Dir      string
	Gen      *Genesis
	App      *node.RigoApp
	Height   int64 // last committed height
	AppHash  []byte
	InBlock  bool
	Log      []CallRec
	TxIdx    int
	Nonces   map[string]uint64 // tracked from DeliverTx results
	Stakes   []StakeRef        // created by successful staking txs (plus genesis stakes)
	Props    [][]byte          // tx hashes of successful proposal txs
	Deployed [][]byte          // contract addresses of successful deployments
	Watch    [][]byte          // further contract addresses to include in state dumps (created by contracts)
	// Tendermint's validator pipeline: ValSets[h] signs block h.
	ValSets    map[int64]*tmtypes.ValidatorSet
	ValErr     string // first validator update list Tendermint would have rejected
	ValErrH    int64
	LastUpd    abcitypes.ValidatorUpdates
	BlockTxOK  int
	Dead       bool // a consensus call panicked: the node is gone
	DeadReason string
}

func (c *Chain) api() abcitypes.Application {
	if c.API != nil {
		return c.API
	}
	return c.App
}

func appConfig(dir string) *cfg.Config {
	c := cfg.DefaultConfig()
	c.SetRoot(dir)
	return c
}

// OpenApp opens an application on dir (creating the data directory when missing).
func OpenApp(dir string) (app *node.RigoApp, err error) {
	defer func() {
		if r := recover(); r != nil {
			err = fmt.Errorf("NewRigoApp panic: %v", r)
		}
	}()
	c := appConfig(dir)
	if e := os.MkdirAll(c.DBDir(), 0o755); e != nil {
		return nil, e
	}
	app = node.NewRigoApp(c, log.NewNopLogger())
	return app, nil
}

func NewChain(dir string, g *Genesis) (*Chain, error) {
	app, err := OpenApp(dir)
	if err != nil {
		return nil, err
	}
	if g.ChainID == "" {
		g.ChainID = "verif-chain"
	}
	if g.GenTime == 0 {
		g.GenTime = 1700000000
	}
	c := &Chain{Dir: dir, Gen: g, App: app, Nonces: map[string]uint64{}, ValSets: map[int64]*tmtypes.ValidatorSet{}}
	return c, nil
}

func (c *Chain) Close() {
	if c.App != nil {
		done := make(chan struct{})
		go func() { c.App.VerifCloseAll(); close(done) }()
		select {
		case <-done:
		case <-time.After(5 * time.Second):
			// a poisoned lock: leak the instance, the worker is recycled
		}
		c.App = nil
	}
}

func (c *Chain) Destroy() {
	c.Close()
	_ = os.RemoveAll(c.Dir)
}

func catch(rec *CallRec) {
	if r := recover(); r != nil {
		buf := make([]byte, 1500)
		n := runtime.Stack(buf, false)
		rec.Panic = fmt.Sprintf("%v", r)
		rec.Resp = "PANIC: " + firstLine(rec.Panic)
		rec.Log = string(buf[:n])
	}
}

func firstLine(s string) string {
	if i := strings.IndexByte(s, '\n'); i >= 0 {
		s = s[:i]
	}
	if len(s) > 200 {
		s = s[:200]
	}
	return s
}

func (c *Chain) record(r CallRec) *CallRec {
	c.Log = append(c.Log, r)
	return &c.Log[len(c.Log)-1]
}

func (c *Chain) Info() (rec CallRec) {
	rec = CallRec{Kind: "Info", H: c.Height}
	func() {
		defer catch(&rec)
		r := c.api().Info(abcitypes.RequestInfo{})
		rec.Resp = fmt.Sprintf("height=%d apphash=%X", r.LastBlockHeight, r.LastBlockAppHash)
		rec.H = r.LastBlockHeight
		rec.Req = hex.EncodeToString(r.LastBlockAppHash)
	}()
	c.record(rec)
	return
}

func (c *Chain) genesisValSet() *tmtypes.ValidatorSet {
	var vals []*tmtypes.Validator
	for i, n := range c.Gen.Vals {
		vals = append(vals, tmtypes.NewValidator(secp256k1.PubKey(W(n).Pub), c.Gen.Powers[i]))
	}
	return tmtypes.NewValidatorSet(vals)
}

func (c *Chain) InitChain() (rec CallRec) {
	rec = CallRec{Kind: "InitChain"}
	var vus []abcitypes.ValidatorUpdate
	for i, n := range c.Gen.Vals {
		vus = append(vus, abcitypes.UpdateValidator(W(n).Pub, c.Gen.Powers[i], "secp256k1"))
	}
	func() {
		defer catch(&rec)
		r := c.api().InitChain(abcitypes.RequestInitChain{
			Time: time.Unix(c.Gen.GenTime, 0).UTC(), ChainId: c.Gen.ChainID, Validators: vus,
			AppStateBytes: c.Gen.appState(), InitialHeight: 1,
		})
		rec.Resp = fmt.Sprintf("apphash=%X nvals=%d", r.AppHash, len(r.Validators))
		c.AppHash = r.AppHash
	}()
	gs := c.genesisValSet()
	c.ValSets[1] = gs
	c.ValSets[2] = gs.Copy()
	for i, n := range c.Gen.Vals {
		c.Stakes = append(c.Stakes, StakeRef{Owner: n, To: n, TxHash: make([]byte, 32), Power: c.Gen.Powers[i], Height: 0})
	}
	c.record(rec)
	if rec.Panic != "" {
		c.Dead, c.DeadReason = true, "InitChain: "+rec.Panic
	}
	return
}

// Start = Info + InitChain on a fresh directory.
func (c *Chain) Start() {
	c.Info()
	c.InitChain()
}

// BlockOpts are the free inputs of a block.
type BlockOpts struct {
	Proposer string   // wallet name; "" = no proposer address
	Absent   []string // validators of h-1 that did not sign
	Evidence []string // wallet names accused of duplicate vote (may name non-validators)
	NoVotes  bool     // send an empty LastCommitInfo
}

func (c *Chain) BlockTime(h int64) time.Time { return time.Unix(c.Gen.GenTime+h, 0).UTC() }

// ValSetAt returns the validator set that signs block h (nil when unknown).
func (c *Chain) ValSetAt(h int64) *tmtypes.ValidatorSet {
	if vs, ok := c.ValSets[h]; ok {
		return vs
	}
	return nil
}

func (c *Chain) BeginBlock(o BlockOpts) (rec CallRec) {
	h := c.Height + 1
	rec = CallRec{Kind: "BeginBlock", H: h}
	req := abcitypes.RequestBeginBlock{
		Hash: []byte(fmt.Sprintf("blockhash-%d", h)),
		Header: tmproto.Header{ChainID: c.Gen.ChainID, Height: h, Time: c.BlockTime(h), AppHash: c.AppHash,
			LastBlockId: tmproto.BlockID{Hash: []byte(fmt.Sprintf("blockhash-%d", h-1))}},
	}
	if o.Proposer != "" {
		req.Header.ProposerAddress = W(o.Proposer).Addr
	}
	if h > 1 && !o.NoVotes {
		if prev := c.ValSetAt(h - 1); prev != nil {
			absent := map[string]bool{}
			for _, a := range o.Absent {
				absent[W(a).Hex()] = true
			}
			for _, v := range prev.Validators {
				req.LastCommitInfo.Votes = append(req.LastCommitInfo.Votes, abcitypes.VoteInfo{
					Validator:       abcitypes.Validator{Address: v.Address, Power: v.VotingPower},
					SignedLastBlock: !absent[strings.ToUpper(hex.EncodeToString(v.Address))],
				})
			}
		}
	}
	for _, e := range o.Evidence {
		pw := int64(0)
		total := int64(0)
		if vs := c.ValSetAt(h - 1); vs != nil {
			total = vs.TotalVotingPower()
			if _, v := vs.GetByAddress(W(e).Addr.Bytes()); v != nil {
				pw = v.VotingPower
			}
		}
		req.ByzantineValidators = append(req.ByzantineValidators, abcitypes.Evidence{
			Type: abcitypes.EvidenceType_DUPLICATE_VOTE, Validator: abcitypes.Validator{Address: W(e).Addr, Power: pw},
			Height: h - 1, Time: c.BlockTime(h - 1), TotalVotingPower: total,
		})
	}
	rec.Req = fmt.Sprintf("proposer=%s absent=%v evidence=%v", o.Proposer, o.Absent, o.Evidence)
	func() {
		defer catch(&rec)
		_ = c.api().BeginBlock(req)
		rec.Resp = "ok"
	}()
	c.InBlock = true
	c.TxIdx = 0
	c.BlockTxOK = 0
	c.record(rec)
	if rec.Panic != "" {
		c.Dead, c.DeadReason = true, "BeginBlock: "+rec.Panic
	}
	return
}

func (c *Chain) DeliverRaw(bz []byte, tag string) (rec CallRec, resp abcitypes.ResponseDeliverTx) {
	rec = CallRec{Kind: "DeliverTx", H: c.Height + 1, Idx: c.TxIdx, Req: tag}
	c.TxIdx++
	func() {
		defer catch(&rec)
		resp = c.api().DeliverTx(abcitypes.RequestDeliverTx{Tx: bz})
		rec.Code = resp.Code
		rec.Log = resp.Log
		rec.Resp = fmt.Sprintf("code=%d data=%X gasWanted=%d gasUsed=%d", resp.Code, resp.Data, resp.GasWanted, resp.GasUsed)
	}()
	c.record(rec)
	return
}

func (c *Chain) EndBlock() (rec CallRec) {
	h := c.Height + 1
	rec = CallRec{Kind: "EndBlock", H: h}
	var ups abcitypes.ValidatorUpdates
	func() {
		defer catch(&rec)
		r := c.api().EndBlock(abcitypes.RequestEndBlock{Height: h})
		ups = r.ValidatorUpdates
		var parts []string
		for _, u := range ups {
			parts = append(parts, fmt.Sprintf("%X:%d", u.PubKey.GetSecp256K1(), u.Power))
		}
		rec.Resp = "updates=[" + strings.Join(parts, ",") + "]"
	}()
	c.LastUpd = ups
	c.record(rec)
	if rec.Panic != "" {
		c.Dead, c.DeadReason = true, "EndBlock: "+rec.Panic
		return
	}
	// Tendermint: validate the updates, apply them to the set of h+1 to obtain the set of h+2.
	base := c.ValSetAt(h + 1)
	if base == nil {
		return
	}
	next := base.Copy()
	if len(ups) > 0 {
		err := validateUpdates(ups)
		var tmUps []*tmtypes.Validator
		if err == nil {
			tmUps, err = tmtypes.PB2TM.ValidatorUpdates(ups)
		}
		if err == nil {
			err = next.UpdateWithChangeSet(tmUps)
		}
		if err != nil {
			if c.ValErr == "" {
				c.ValErr, c.ValErrH = err.Error(), h
			}
			next = base.Copy() // Tendermint would halt; the harness keeps the old set to be able to continue
		}
	}
	c.ValSets[h+2] = next
	return
}

func validateUpdates(ups abcitypes.ValidatorUpdates) error {
	for _, u := range ups {
		if u.GetPower() < 0 {
			return fmt.Errorf("voting power can't be negative %v", u)
		}
		pk, err := cryptoenc.PubKeyFromProto(u.PubKey)
		if err != nil {
			return err
		}
		if pk.Type() != "secp256k1" {
			return fmt.Errorf("validator uses unsupported pubkey type %s", pk.Type())
		}
	}
	return nil
}

func (c *Chain) Commit() (rec CallRec) {
	h := c.Height + 1
	rec = CallRec{Kind: "Commit", H: h}
	func() {
		defer catch(&rec)
		r := c.api().Commit()
		rec.Resp = fmt.Sprintf("apphash=%X", r.Data)
		c.AppHash = r.Data
	}()
	c.record(rec)
	if rec.Panic != "" {
		c.Dead, c.DeadReason = true, "Commit: "+rec.Panic
		return
	}
	c.Height = h
	c.InBlock = false
	return
}

func (c *Chain) CheckTxRaw(bz []byte, tag string) (rec CallRec) {
	rec = CallRec{Kind: "CheckTx", H: c.Height, Req: tag, Inject: true}
	func() {
		defer catch(&rec)
		r := c.api().CheckTx(abcitypes.RequestCheckTx{Tx: bz, Type: abcitypes.CheckTxType_New})
		rec.Code = r.Code
		rec.Log = r.Log
		rec.Resp = fmt.Sprintf("code=%d data=%X gasWanted=%d gasUsed=%d", r.Code, r.Data, r.GasWanted, r.GasUsed)
	}()
	c.record(rec)
	return
}

func (c *Chain) Query(path string, data []byte, height int64) (rec CallRec, resp abcitypes.ResponseQuery) {
	rec = CallRec{Kind: "Query", H: height, Req: fmt.Sprintf("%s/%X@%d", path, data, height), Inject: true}
	func() {
		defer catch(&rec)
		resp = c.api().Query(abcitypes.RequestQuery{Path: path, Data: data, Height: height})
		rec.Code = resp.Code
		rec.Log = resp.Log
		rec.Resp = fmt.Sprintf("code=%d value=%s", resp.Code, string(resp.Value))
	}()
	c.record(rec)
	return
}

// ConsensusLog returns the responses of the consensus calls only (what replicas must agree on).
func (c *Chain) ConsensusLog() []string {
	var out []string
	for _, r := range c.Log {
		if r.Inject || r.Kind == "Info" {
			continue
		}
		out = append(out, fmt.Sprintf("%s@%d#%d %s", r.Kind, r.H, r.Idx, r.Resp))
	}
	return out
}

// SnapshotTo copies the data directory (kill -9 model: what has been written stays).
// SnapshotTo copies the data directory of the LIVE application (the kill -9 model). goleveldb compacts in background
// goroutines the harness does not schedule: a file may appear or vanish while the copy walks the directory, and such a
// torn copy is an artefact of copying, not a crash image. The copy is therefore repeated until the directory listing
// (names, sizes, modification times) is the same before and after it.
func (c *Chain) SnapshotTo(dst string) error {
	var last error
	for try := 0; try < 8; try++ {
		if try > 0 {
			SnapshotRetries++
			_ = os.RemoveAll(dst)
			time.Sleep(time.Duration(try*5) * time.Millisecond)
		}
		before, err1 := dirListing(c.Dir)
		err := CopyDir(c.Dir, dst)
		after, err2 := dirListing(c.Dir)
		if err == nil && err1 == nil && err2 == nil && before == after {
			return nil
		}
		last = fmt.Errorf("unstable snapshot of %s: copy error %v, listing changed %v", c.Dir, err, before != after)
	}
	return last
}

// SnapshotError: the harness could not take a stable copy (not a statement about the application).
type SnapshotError struct{ Err error }

func (e *SnapshotError) Error() string { return e.Err.Error() }

// SnapshotRetries counts repeated copies (reported in evidence by the checks that restart).
var SnapshotRetries int

func dirListing(dir string) (string, error) {
	var sb strings.Builder
	err := filepath.Walk(dir, func(p string, info os.FileInfo, err error) error {
		if err != nil {
			return err
		}
		if !info.IsDir() {
			fmt.Fprintf(&sb, "%s %d %d\n", p, info.Size(), info.ModTime().UnixNano())
		}
		return nil
	})
	return sb.String(), err
}

func CopyDir(src, dst string) error {
	return filepath.Walk(src, func(p string, info os.FileInfo, err error) error {
		if err != nil {
			return err
		}
		rel, _ := filepath.Rel(src, p)
		t := filepath.Join(dst, rel)
		if info.IsDir() {
			return os.MkdirAll(t, 0o755)
		}
		if info.Name() == "LOCK" {
			return os.WriteFile(t, nil, 0o644)
		}
		bz, err := os.ReadFile(p)
		if err != nil {
			return err
		}
		return os.WriteFile(t, bz, 0o644)
	})
}

// Reopen opens a NEW application on a copy of this chain's directory (a restart; goleveldb's
// process-wide lock forbids opening the same directory twice) and returns the continuing chain.
// The harness-side bookkeeping (nonces, validator pipeline …) is carried over: it belongs to
// Tendermint / the wallets, not to the application.
func (c *Chain) Reopen(newDir string, closeOld bool) (*Chain, error) {
	if err := c.SnapshotTo(newDir); err != nil {
		return nil, &SnapshotError{err}
	}
	if closeOld {
		c.Close()
	}
	app, err := OpenApp(newDir)
	if err != nil {
		return nil, err
	}
	n := &Chain{Dir: newDir, Gen: c.Gen, App: app, Height: c.Height, AppHash: c.AppHash, Nonces: map[string]uint64{},
		ValSets: map[int64]*tmtypes.ValidatorSet{}, Stakes: append([]StakeRef{}, c.Stakes...), Props: append([][]byte{}, c.Props...),
		Deployed: append([][]byte{}, c.Deployed...), ValErr: c.ValErr, ValErrH: c.ValErrH}
	for k, v := range c.Nonces {
		n.Nonces[k] = v
	}
	for k, v := range c.ValSets {
		n.ValSets[k] = v.Copy()
	}
	return n, nil
}

// JSON helpers
func MustJSON(v interface{}) json.RawMessage {
	b, err := json.Marshal(v)
	if err != nil {
		panic(err)
	}
	return b
}

var _ = tmjson.Marshal
var _ = ctrlertypes.TRX_TRANSFER

func abciQuery(path string, data []byte, height int64) abcitypes.RequestQuery {
	return abcitypes.RequestQuery{Path: path, Data: data, Height: height}
}
