package sim

import (
	abcicli "github.com/tendermint/tendermint/abci/client"
	abcitypes "github.com/tendermint/tendermint/abci/types"
)

// ViaClient adapts an ABCI client (the node's mutex-protected local client) to the Application
// interface, so that the same driver can push its calls through the real client.
type ViaClient struct {
	abcitypes.BaseApplication
	C abcicli.Client
}

func (v *ViaClient) Info(r abcitypes.RequestInfo) abcitypes.ResponseInfo {
	res, _ := v.C.InfoSync(r)
	return *res
}
func (v *ViaClient) InitChain(r abcitypes.RequestInitChain) abcitypes.ResponseInitChain {
	res, _ := v.C.InitChainSync(r)
	return *res
}
func (v *ViaClient) BeginBlock(r abcitypes.RequestBeginBlock) abcitypes.ResponseBeginBlock {
	res, _ := v.C.BeginBlockSync(r)
	return *res
}
func (v *ViaClient) DeliverTx(r abcitypes.RequestDeliverTx) abcitypes.ResponseDeliverTx {
	res, _ := v.C.DeliverTxSync(r)
	return *res
}
func (v *ViaClient) EndBlock(r abcitypes.RequestEndBlock) abcitypes.ResponseEndBlock {
	res, _ := v.C.EndBlockSync(r)
	return *res
}
func (v *ViaClient) Commit() abcitypes.ResponseCommit {
	res, _ := v.C.CommitSync()
	return *res
}
func (v *ViaClient) CheckTx(r abcitypes.RequestCheckTx) abcitypes.ResponseCheckTx {
	res, _ := v.C.CheckTxSync(r)
	return *res
}
func (v *ViaClient) Query(r abcitypes.RequestQuery) abcitypes.ResponseQuery {
	res, _ := v.C.QuerySync(r)
	return *res
}
