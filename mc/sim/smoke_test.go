package sim

import (
	"fmt"
	"os"
	"testing"
)

func TestSmoke(t *testing.T) {
	dir, _ := os.MkdirTemp("/dev/shm", "smoke")
	defer os.RemoveAll(dir)
	g := &Genesis{Vals: []string{"V0", "V1"}, Powers: []int64{12, 10}, Holders: map[string]string{"V0": "1000R", "V1": "1000R", "U0": "1000R", "U1": "1000R"}}
	c, err := NewChain(dir, g)
	if err != nil {
		t.Fatal(err)
	}
	defer c.Destroy()
	c.Start()
	for h := 1; h <= 6; h++ {
		c.BeginBlock(BlockOpts{Proposer: "V0"})
		switch h {
		case 1:
			c.Deliver(TxSpec{Type: "transfer", From: "U0", To: "U1", Amount: "5R"}, nil)
			c.Deliver(TxSpec{Type: "stake", From: "U0", To: "V0", Amount: "3R"}, nil)
			c.Deliver(TxSpec{Type: "stake", From: "U1", To: "U1", Amount: "4R"}, nil)
		case 2:
			c.Deliver(TxSpec{Type: "proposal", From: "V0", PropStartOff: 1, PropPeriod: 1, PropApplyOff: 1, PropOptions: []string{`{"gasPrice":"4"}`}}, nil)
			c.Deliver(TxSpec{Type: "setdoc", From: "U1", Name: "n", URL: "u"}, nil)
		case 3:
			c.Deliver(TxSpec{Type: "vote", From: "V0", PropIdx: 0, Choice: 0}, nil)
			c.Deliver(TxSpec{Type: "vote", From: "V1", PropIdx: 0, Choice: 0}, nil)
			c.Deliver(TxSpec{Type: "unstake", From: "U0", StakeOwner: "U0", StakeIdx: 0}, nil)
		case 4:
			c.Deliver(TxSpec{Type: "withdraw", From: "V0", ReqAmt: "1"}, nil)
			c.Deliver(TxSpec{Type: "deploy", From: "U0", Data: "600a600c600039600a6000f3602a60005260206000f3"}, nil)
		case 5:
			c.Deliver(TxSpec{Type: "call", From: "U1", To: "contract:0"}, nil)
		}
		c.EndBlock()
		c.Commit()
	}
	for _, l := range c.Log {
		fmt.Printf("%-10s h=%d #%d %-40s => %s %s\n", l.Kind, l.H, l.Idx, l.Req, l.Resp, firstLine(l.Log))
	}
	st, err := c.DumpState(0, c.Deployed)
	if err != nil {
		t.Fatal(err)
	}
	fmt.Println(st.JSON())
	fmt.Println("valerr:", c.ValErr)
}
