package sim

import (
	"crypto/sha256"
	"encoding/hex"
	"encoding/json"
	"fmt"
	"math/big"
	"sort"
	"strings"

	"github.com/ethereum/go-ethereum/common"
	"github.com/rigochain/rigo-go/ctrlers/gov/proposal"
	"github.com/rigochain/rigo-go/ctrlers/stake"
	ctrlertypes "github.com/rigochain/rigo-go/ctrlers/types"
)

type AcctSt struct {
	Nonce   uint64 `json:"nonce"`
	Balance string `json:"balance"`
	Name    string `json:"name,omitempty"`
	Doc     string `json:"doc,omitempty"`
	Code    string `json:"code,omitempty"`
}

type StakeSt struct {
	Owner  string `json:"owner"`
	To     string `json:"to"`
	TxHash string `json:"txhash"`
	Power  int64  `json:"power"`
	Start  int64  `json:"start"`
	Refund int64  `json:"refund"`
}

type DelegSt struct {
	Self      int64     `json:"self"`
	Total     int64     `json:"total"`
	Stakes    []StakeSt `json:"stakes"`
	NotSigned []int64   `json:"notSigned,omitempty"`
	PubKey    string    `json:"pubKey"`
}

type RewardSt struct {
	Issued    string `json:"issued"`
	Withdrawn string `json:"withdrawn"`
	Slashed   string `json:"slashed"`
	Cumulated string `json:"cumulated"`
	Height    int64  `json:"height"`
}

type VoterSt struct {
	Power  int64 `json:"power"`
	Choice int32 `json:"choice"`
}

type PropSt struct {
	Status   string             `json:"status"` // voting | frozen
	Start    int64              `json:"start"`
	End      int64              `json:"end"`
	Apply    int64              `json:"apply"`
	Total    int64              `json:"total"`
	Majority int64              `json:"majority"`
	Voters   map[string]VoterSt `json:"voters"`
	Options  []string           `json:"options"`
	Votes    []int64            `json:"votes"`
	Major    string             `json:"major,omitempty"`
	OptType  int32              `json:"optType"`
}

type ContractSt struct {
	Code    string            `json:"code"`
	Storage map[string]string `json:"storage,omitempty"`
}

// State is everything the application committed at one height (plus the in-memory items the
// properties talk about: active parameters, validator set last reported).
type State struct {
	Height     int64                 `json:"height"`
	Accounts   map[string]AcctSt     `json:"accounts"`
	Delegatees map[string]DelegSt    `json:"delegatees"`
	Frozen     []StakeSt             `json:"frozen"`
	Rewards    map[string]RewardSt   `json:"rewards"`
	Proposals  map[string]PropSt     `json:"proposals"`
	Params     string                `json:"params"`       // committed governance parameters (ledger)
	Active     string                `json:"activeParams"` // parameters in force in memory
	LastVals   map[string]int64      `json:"lastVals"`     // validator set last reported (in memory)
	Contracts  map[string]ContractSt `json:"contracts,omitempty"`
}

func hx(b []byte) string { return strings.ToUpper(hex.EncodeToString(b)) }

func stakeSt(s *stake.Stake) StakeSt {
	return StakeSt{Owner: hx(s.From), To: hx(s.To), TxHash: hx(s.TxHash), Power: s.Power, Start: s.StartHeight, Refund: s.RefundHeight}
}

// DumpState reads the state committed at `height` (0 = the last saved version) through read-only accessors.
func (c *Chain) DumpState(height int64, contracts [][]byte) (*State, error) {
	a, s, g, vm := c.App.VerifCtrlers()
	st := &State{Height: height, Accounts: map[string]AcctSt{}, Delegatees: map[string]DelegSt{}, Rewards: map[string]RewardSt{},
		Proposals: map[string]PropSt{}, LastVals: map[string]int64{}}
	if height == 0 {
		st.Height = c.Height
	}
	if err := a.VerifReadAllAt(height, func(ac *ctrlertypes.Account) {
		st.Accounts[hx(ac.Address)] = AcctSt{Nonce: ac.Nonce, Balance: ac.Balance.Dec(), Name: ac.Name, Doc: ac.DocURL, Code: hx(ac.Code)}
	}); err != nil {
		return nil, fmt.Errorf("accounts: %v", err)
	}
	if err := s.VerifReadDelegateesAt(height, func(d *stake.Delegatee) {
		ds := DelegSt{Self: d.SelfPower, Total: d.TotalPower, PubKey: hx(d.PubKey)}
		for _, s0 := range d.Stakes {
			ds.Stakes = append(ds.Stakes, stakeSt(s0))
		}
		if d.NotSignedHeights != nil {
			ds.NotSigned = append(ds.NotSigned, d.NotSignedHeights.BlockHeights...)
		}
		st.Delegatees[hx(d.Addr)] = ds
	}); err != nil {
		return nil, fmt.Errorf("delegatees: %v", err)
	}
	if err := s.VerifReadFrozenAt(height, func(s0 *stake.Stake) { st.Frozen = append(st.Frozen, stakeSt(s0)) }); err != nil {
		return nil, fmt.Errorf("frozen: %v", err)
	}
	sort.Slice(st.Frozen, func(i, j int) bool { return st.Frozen[i].TxHash < st.Frozen[j].TxHash })
	if err := s.VerifReadRewardsAt(height, func(r *stake.Reward) {
		st.Rewards[hx(r.Address())] = RewardSt{Issued: r.GetIssued().Dec(), Withdrawn: r.GetWithdrawn().Dec(), Slashed: r.GetSlashed().Dec(), Cumulated: r.GetCumulated().Dec(), Height: r.Height()}
	}); err != nil {
		return nil, fmt.Errorf("rewards: %v", err)
	}
	for _, frozen := range []bool{false, true} {
		status := "voting"
		if frozen {
			status = "frozen"
		}
		if err := g.VerifReadProposalsAt(height, frozen, func(p *proposal.GovProposal) {
			ps := PropSt{Status: status, Start: p.StartVotingHeight, End: p.EndVotingHeight, Apply: p.ApplyingHeight, Total: p.TotalVotingPower,
				Majority: p.MajorityPower, Voters: map[string]VoterSt{}, OptType: p.OptType}
			for _, v := range p.Voters {
				ps.Voters[hx(v.Addr)] = VoterSt{Power: v.Power, Choice: v.Choice}
			}
			for _, o := range p.Options {
				ps.Options = append(ps.Options, string(o.Option()))
				ps.Votes = append(ps.Votes, o.Votes())
			}
			if p.MajorOption != nil {
				ps.Major = string(p.MajorOption.Option())
			}
			st.Proposals[hx(p.TxHash)] = ps
		}); err != nil {
			return nil, fmt.Errorf("proposals: %v", err)
		}
	}
	// committed parameters: through the query path (immutable tree)
	_, resp := c.queryQuiet("gov_params", nil, height)
	st.Params = string(resp)
	gp := g.GetGovParams()
	if bz, err := json.Marshal(&gp); err == nil {
		st.Active = string(bz)
	}
	for _, v := range s.VerifLastValidators() {
		st.LastVals[hx(v.Addr)] = v.Power
	}
	if len(contracts) > 0 {
		st.Contracts = map[string]ContractSt{}
		h := height
		if h == 0 {
			h = c.Height
		}
		sdb, xerr := vm.ImmutableStateAt(h)
		if xerr == nil && sdb != nil {
			for _, ca := range contracts {
				var addr common.Address
				copy(addr[:], ca)
				cs := ContractSt{Code: hx(sdb.StateDB.GetCode(addr)), Storage: map[string]string{}}
				// slots are read one by one: the node's trie database keeps no key pre-images, so an
				// iteration could not name the slots. The scenario contracts use slots 0..15 only.
				for slot := 0; slot < 16; slot++ {
					var k common.Hash
					k[31] = byte(slot)
					v := sdb.StateDB.GetState(addr, k)
					if v != (common.Hash{}) {
						cs.Storage[hx(k[:])] = hx(v[:])
					}
				}
				st.Contracts[hx(ca)] = cs
			}
		}
	}
	return st, nil
}

func (c *Chain) queryQuiet(path string, data []byte, height int64) (uint32, []byte) {
	defer func() { _ = recover() }()
	r := c.api().Query(abciQuery(path, data, height))
	return r.Code, r.Value
}

func (s *State) JSON() string {
	b, _ := json.Marshal(s)
	return string(b)
}

func (s *State) Hash() string {
	h := sha256.Sum256([]byte(s.JSON()))
	return hex.EncodeToString(h[:8])
}

// Total value = balances + bonded + unbonding (in base units).
func (s *State) TotalValue() *big.Int {
	t := new(big.Int)
	for _, a := range s.Accounts {
		b, _ := new(big.Int).SetString(a.Balance, 10)
		t.Add(t, b)
	}
	for _, d := range s.Delegatees {
		for _, sk := range d.Stakes {
			t.Add(t, new(big.Int).Mul(big.NewInt(sk.Power), Pow18))
		}
	}
	for _, f := range s.Frozen {
		t.Add(t, new(big.Int).Mul(big.NewInt(f.Power), Pow18))
	}
	return t
}

func (s *State) Balance(addrHex string) *big.Int {
	a, ok := s.Accounts[addrHex]
	if !ok {
		return new(big.Int)
	}
	b, _ := new(big.Int).SetString(a.Balance, 10)
	return b
}

// DiffStates lists the top-level differences between two states (for violation details).
func DiffStates(a, b *State) []string {
	var out []string
	am, bm := map[string]interface{}{}, map[string]interface{}{}
	_ = json.Unmarshal([]byte(a.JSON()), &am)
	_ = json.Unmarshal([]byte(b.JSON()), &bm)
	var walk func(path string, x, y interface{})
	walk = func(path string, x, y interface{}) {
		xm, xok := x.(map[string]interface{})
		ym, yok := y.(map[string]interface{})
		if xok && yok {
			keys := map[string]bool{}
			for k := range xm {
				keys[k] = true
			}
			for k := range ym {
				keys[k] = true
			}
			var ks []string
			for k := range keys {
				ks = append(ks, k)
			}
			sort.Strings(ks)
			for _, k := range ks {
				walk(path+"/"+k, xm[k], ym[k])
			}
			return
		}
		xb, _ := json.Marshal(x)
		yb, _ := json.Marshal(y)
		if string(xb) != string(yb) {
			xs, ys := string(xb), string(yb)
			if len(xs) > 160 {
				xs = xs[:160] + "…"
			}
			if len(ys) > 160 {
				ys = ys[:160] + "…"
			}
			out = append(out, fmt.Sprintf("%s: %s != %s", path, xs, ys))
		}
	}
	walk("", am, bm)
	return out
}
