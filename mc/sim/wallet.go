// Package sim drives the real node.RigoApp exactly the way Tendermint does (Info, InitChain,
// BeginBlock / DeliverTx* / EndBlock / Commit, CheckTx, Query), keeps Tendermint's validator-set
// pipeline with the real tendermint ValidatorSet, builds and signs transactions, snapshots data
// directories (restart / crash) and dumps the complete committed state.
package sim

import (
	"crypto/ecdsa"
	"crypto/sha256"
	"encoding/hex"
	"fmt"
	"math/big"
	"regexp"
	"strings"

	ethcrypto "github.com/ethereum/go-ethereum/crypto"
	"github.com/holiman/uint256"
	ctrlertypes "github.com/rigochain/rigo-go/ctrlers/types"
	rtypes "github.com/rigochain/rigo-go/types"
	rcrypto "github.com/rigochain/rigo-go/types/crypto"
)

type Wallet struct {
	Name string
	Priv *ecdsa.PrivateKey
	Pub  []byte // 33-byte compressed
	Addr rtypes.Address
}

var walletCache = map[string]*Wallet{}

// W returns the deterministic wallet with the given name.
func W(name string) *Wallet {
	if w, ok := walletCache[name]; ok {
		return w
	}
	h := sha256.Sum256([]byte("rigo-verif-wallet:" + name))
	priv, err := ethcrypto.ToECDSA(h[:])
	if err != nil {
		panic(err)
	}
	pub := ethcrypto.CompressPubkey(&priv.PublicKey)
	addr, _ := rcrypto.PubBytes2Addr(pub)
	w := &Wallet{Name: name, Priv: priv, Pub: pub, Addr: addr}
	walletCache[name] = w
	return w
}

func (w *Wallet) Hex() string { return strings.ToUpper(hex.EncodeToString(w.Addr)) }

// Sign signs tx (RLP pre-image, the scheme DeliverTx verifies) for chainID.
func (w *Wallet) Sign(tx *ctrlertypes.Trx, chainID string) {
	pre, xerr := ctrlertypes.PreImageToSignTrxRLP(tx, chainID)
	if xerr != nil {
		panic(xerr)
	}
	sig, err := rcrypto.Sign(pre, w.Priv)
	if err != nil {
		panic(err)
	}
	tx.Sig = sig
}

var (
	Pow18   = new(big.Int).Exp(big.NewInt(10), big.NewInt(18), nil)
	two255  = new(big.Int).Lsh(big.NewInt(1), 255)
	two256  = new(big.Int).Lsh(big.NewInt(1), 256)
	ZeroAdr = rtypes.ZeroAddress()
)

func U256(b *big.Int) *uint256.Int {
	u, over := uint256.FromBig(b)
	if over {
		panic("uint256 overflow in harness")
	}
	return u
}

func Rigo(n int64) *big.Int { return new(big.Int).Mul(big.NewInt(n), Pow18) }

// ParseAmount resolves an amount expression: decimal, "<n>R" (n RIGO), "2^255", "2^255-1", "2^256-1",
// or expressions over the sender's balance: "bal", "bal-fee", "bal-fee+1", "bal-fee-1", "bal+1", "half".
var powExpr = regexp.MustCompile(`^2\^(\d+)([+-]\d+)?(R)?$`)

func ParseAmount(s string, bal, fee *big.Int) *big.Int {
	switch s {
	case "", "0":
		return big.NewInt(0)
	case "2^255":
		return new(big.Int).Set(two255)
	case "2^255-1":
		return new(big.Int).Sub(two255, big.NewInt(1))
	case "2^256-1":
		return new(big.Int).Sub(two256, big.NewInt(1))
	case "bal":
		return new(big.Int).Set(bal)
	case "bal+1":
		return new(big.Int).Add(bal, big.NewInt(1))
	case "half":
		return new(big.Int).Rsh(bal, 1)
	case "bal-fee":
		return nonneg(new(big.Int).Sub(bal, fee))
	case "bal-fee+1":
		return nonneg(new(big.Int).Add(new(big.Int).Sub(bal, fee), big.NewInt(1)))
	case "bal-fee-1":
		return nonneg(new(big.Int).Sub(new(big.Int).Sub(bal, fee), big.NewInt(1)))
	}
	if s == "maxR" { // the largest multiple of 10^18 below 2^256
		m := new(big.Int).Sub(two256, big.NewInt(1))
		return m.Sub(m, new(big.Int).Mod(m, Pow18))
	}
	if m := powExpr.FindStringSubmatch(s); m != nil { // 2^N, 2^N-K, 2^N+K, each optionally followed by R (x 10^18)
		var n, k int64
		fmt.Sscanf(m[1], "%d", &n)
		v := new(big.Int).Lsh(big.NewInt(1), uint(n))
		if m[2] != "" {
			fmt.Sscanf(m[2], "%d", &k)
			v.Add(v, big.NewInt(k))
		}
		if m[3] == "R" {
			v.Mul(v, Pow18)
		}
		return v
	}
	if strings.HasSuffix(s, "R+1") {
		var n int64
		fmt.Sscanf(s, "%dR+1", &n)
		return new(big.Int).Add(Rigo(n), big.NewInt(1))
	}
	if strings.HasSuffix(s, "R") {
		var n int64
		fmt.Sscanf(s, "%dR", &n)
		return Rigo(n)
	}
	b, ok := new(big.Int).SetString(s, 10)
	if !ok {
		panic("bad amount " + s)
	}
	return b
}

func nonneg(b *big.Int) *big.Int {
	if b.Sign() < 0 {
		return big.NewInt(0)
	}
	return b
}
