package sim

import (
	"sync"

	tmrpccore "github.com/tendermint/tendermint/rpc/core"
	tmtypes "github.com/tendermint/tendermint/types"
)

// stubBlockStore gives the application's vm_call query the RPC environment Tendermint installs in
// production: blocks 1..height exist, with the harness's deterministic block times.
type stubBlockStore struct {
	mu sync.Mutex
	c  *Chain
}

func (s *stubBlockStore) Base() int64   { return 1 }
func (s *stubBlockStore) Height() int64 { return s.c.Height }
func (s *stubBlockStore) Size() int64   { return s.c.Height }
func (s *stubBlockStore) LoadBaseMeta() *tmtypes.BlockMeta {
	return s.LoadBlockMeta(1)
}
func (s *stubBlockStore) LoadBlockMeta(h int64) *tmtypes.BlockMeta {
	if h < 1 || h > s.c.Height {
		return nil
	}
	return &tmtypes.BlockMeta{Header: tmtypes.Header{Height: h, Time: s.c.BlockTime(h), ChainID: s.c.Gen.ChainID}}
}
func (s *stubBlockStore) LoadBlock(h int64) *tmtypes.Block {
	if h < 1 || h > s.c.Height {
		return nil
	}
	return &tmtypes.Block{Header: tmtypes.Header{Height: h, Time: s.c.BlockTime(h), ChainID: s.c.Gen.ChainID}}
}
func (s *stubBlockStore) SaveBlock(*tmtypes.Block, *tmtypes.PartSet, *tmtypes.Commit) {}
func (s *stubBlockStore) PruneBlocks(int64) (uint64, error)                           { return 0, nil }
func (s *stubBlockStore) LoadBlockByHash([]byte) *tmtypes.Block                       { return nil }
func (s *stubBlockStore) LoadBlockPart(int64, int) *tmtypes.Part                      { return nil }
func (s *stubBlockStore) LoadBlockCommit(int64) *tmtypes.Commit                       { return nil }
func (s *stubBlockStore) LoadSeenCommit(int64) *tmtypes.Commit                        { return nil }

// InstallRPCEnv points tendermint's rpc/core environment at this chain (process-global).
func (c *Chain) InstallRPCEnv() {
	tmrpccore.SetEnvironment(&tmrpccore.Environment{BlockStore: &stubBlockStore{c: c}})
}
