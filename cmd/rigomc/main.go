package main

import (
	"fmt"
	"os"
	"runtime/pprof"

	"verif/checks"
	"verif/mc/engine"
)

var stopProf = func() {}

func exit(c int) {
	stopProf()
	checks.CleanupTmp()
	os.Exit(c)
}

func main() {
	if len(os.Args) < 2 {
		fmt.Fprintln(os.Stderr, "usage: rigomc check <id> <tier> | replay <file> | list")
		os.Exit(2)
	}
	if pf := os.Getenv("VERIF_CPUPROFILE"); pf != "" {
		f, _ := os.Create(pf)
		_ = pprof.StartCPUProfile(f)
		stopProf = func() { pprof.StopCPUProfile(); f.Close() }
	}
	switch os.Args[1] {
	case "check":
		tier := "quick"
		if len(os.Args) > 3 {
			tier = os.Args[3]
		}
		exit(engine.CheckMain(os.Args[2], tier))
	case "worker":
		exit(engine.WorkerMain(os.Args[2:]))
	case "runcase":
		exit(engine.RunCaseMain(os.Args[2:]))
	case "count":
		exit(engine.CountMain(os.Args[2], os.Args[3]))
	case "rundesc":
		exit(engine.RunDescMain(os.Args[2:]))
	case "eval":
		exit(engine.EvalMain(os.Args[2]))
	case "replay":
		exit(engine.ReplayMain(os.Args[2]))
	case "list":
		for _, id := range engine.IDs() {
			fmt.Println(id)
		}
	default:
		fmt.Fprintln(os.Stderr, "unknown command")
		os.Exit(2)
	}
}
