package checks

import (
	"encoding/json"
	"fmt"
	"os"
	"testing"

	"verif/mc/sim"
)

// TestDenseHistoryTrace prints the default history's consensus log (go test -run TestDenseHistoryTrace -v).
func TestDenseHistoryTrace(t *testing.T) {
	v := os.Getenv("VARIANT")
	if v == "" {
		v = "g3"
	}
	r := sim.Run(tmpRoot(), denseHistory(genesisByName(v)), nil)
	defer r.Cleanup()
	defer CleanupTmp()
	for _, l := range r.Chain.Log {
		lg := l.Log
		if len(lg) > 150 {
			lg = lg[:150]
		}
		fmt.Printf("%-10s h=%d #%d %-45s => %s | %s\n", l.Kind, l.H, l.Idx, l.Req, l.Resp, lg)
	}
	fmt.Println("valerr:", r.Chain.ValErr, "dead:", r.Chain.DeadReason)
	if len(r.States) > 0 {
		fmt.Println(r.States[len(r.States)-1].JSON())
	}
}

func TestSmallStakeTrace(t *testing.T) {
	r := sim.Run(tmpRoot(), smallStakeHistory(genesis3s()), nil)
	defer r.Cleanup()
	defer CleanupTmp()
	for _, l := range r.Chain.Log {
		lg := l.Log
		if len(lg) > 150 {
			lg = lg[:150]
		}
		fmt.Printf("%-10s h=%d #%d %-45s => %s | %s\n", l.Kind, l.H, l.Idx, l.Req, l.Resp, lg)
	}
	fmt.Println("valerr:", r.Chain.ValErr, "dead:", r.Chain.DeadReason)
	for _, st := range r.States {
		b, _ := json.Marshal(st.Delegatees)
		fmt.Println(st.Height, string(b))
	}
}
