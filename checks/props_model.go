package checks

// Scenario families of the model-based checks C02, C10–C16 (C04 and C19 have their own files).

import (
	"encoding/hex"
	"fmt"
	"math/big"

	"verif/mc/engine"
	"verif/mc/refmodel"
	"verif/mc/sim"
)

func coreAppend(blocks map[int]bool, maxChoice int, posMax int) func(ss *slotSet, s slot, ch int) bool {
	return func(ss *slotSet, s slot, ch int) bool {
		switch s.kind {
		case slotAppend:
			return blocks[s.block] && ch <= maxChoice && s.pos <= posMax
		case slotTx:
			return false
		}
		return blocks[s.block] && ch == 1
	}
}

func blocksSet(bs ...int) map[int]bool {
	m := map[int]bool{}
	for _, b := range bs {
		m[b] = true
	}
	return m
}

func gWith(g *sim.Genesis, kv ...string) *sim.Genesis {
	if g.Params == nil {
		g.Params = map[string]string{}
	}
	for i := 0; i+1 < len(kv); i += 2 {
		g.Params[kv[i]] = kv[i+1]
	}
	return g
}

func emptyBlocks(n int) []sim.Block {
	var b []sim.Block
	for i := 0; i < n; i++ {
		b = append(b, blk())
	}
	return b
}

// ---------------------------------------------------------------- C02

func c02Menu() []sim.TxSpec {
	g60 := func(s *sim.TxSpec) { s.Gas = 60000 }
	return []sim.TxSpec{
		// core (first 12)
		unstk("V1", "V1", "V1", 0),
		unstk("V2", "V2", "V2", 0),
		unstk("U1", "U1", "U1", 0),
		stk("U1", "U1", "3R"),
		stk("U1", "U1", "4R"),
		unstk("U0", "U0", "V1", 0),
		wdr("V0", "rwd"),
		wdr("V0", "100000"),
		tr("W", "U0", "bal-fee"),
		call("U1", "contract:0", "", "1R"),
		stk("U0", "V1", "1R"),
		tr("U0", "U0", "5R"),
		// rest
		tr("U0", "U1", "1"),
		tr("W", "U0", "bal-fee+1"),
		tr("U0", "U1", "2^255-1"),
		tr("U0", "U1", "2^255"),
		tr("U0", "U1", "2^256-1"),
		tr("P", "U0", "2R"),
		stk("U0", "V1", "1R+1"),
		stk("U0", "V1", "0"),
		stk("P", "P", "2R"),
		unstk("W", "U0", "V1", 0),
		wdr("V0", "0"),
		wdr("V0", "1"),
		wdr("V0", "84"),
		wdr("V0", "rwd+1"),
		deploy("U0", counterInit, "1R"),
		call("W", "contract:1", "", "1R"),
		with(tr("W", "contract:0", "1R"), g60, "gas 60000"),
		with(tr("W", "contract:1", "1R"), g60, "gas 60000"),
		// mempool-only traffic (CheckTx, never delivered) must move no value
		chk(tr("W", "U0", "bal-fee")), chk(stk("U0", "V1", "2R")), chk(unstk("V1", "V1", "V1", 0)), chk(wdr("V0", "84")),
	}
}

func valueHistory(g *sim.Genesis) sim.History {
	return sim.History{Gen: g, Blocks: append([]sim.Block{
		blk(stk("U0", "V1", "3R"), stk("U1", "U1", "4R")),
		blk(deploy("U0", counterInit, "0"), deploy("W", revertInit, "0")),
	}, emptyBlocks(5)...)}
}

// forwarderHistory: a "picky" receiver K (reverts without value, accepts value) and a forwarder F that calls K
// first with value 0 (ignoring the revert) and then with its whole call value; value is pushed through F.
func forwarderHistory(g *sim.Genesis) sim.History {
	k := sim.CreateAddress("W", 0)
	fw := append(callTo(k, 0, 0xffff), append(hx2("6000 6000 6000 6000 34"), append(push20(k), hx2("61ffff f1 50 00")...)...)...)
	big := func(s sim.TxSpec) sim.TxSpec { s.Gas = 500000; return s }
	return sim.History{Gen: g, Blocks: []sim.Block{
		blk(deploy("W", hex.EncodeToString(initCodeFor(hx2("34 15 60 06 57 00 5b 60 00 60 00 fd"))), "0"), big(deploy("U0", hex.EncodeToString(initCodeFor(fw)), "0"))),
		blk(big(call("U1", "contract:1", "", "5R"))),
		blk(big(call("U1", "contract:1", "", "0")), big(call("U0", "contract:1", "", "1R")), tr("W", "contract:0", "0")),
		blk(big(call("U1", "contract:0", "", "2R")), big(tr("W", "contract:1", "1R"))),
		blk(), blk(),
	}}
}

// richMenu: amounts at the limits of the power arithmetic (signed 64-bit power, the consensus engine's 2^60-1 total), by a
// sender that can afford them, and amounts whose sum with the fee wraps around 2^256.
func richMenu() []sim.TxSpec {
	gasR := func(s *sim.TxSpec) { s.GasExpr = "1R" }
	return []sim.TxSpec{
		stk("R", "R", "2^40R"),
		stk("R", "R", "2^59R"),
		stk("R", "R", "2^60-1R"),
		stk("R", "R", "2^60R"),
		stk("R", "R", "2^62R"),
		stk("R", "R", "2^63-1R"),
		stk("R", "R", "2^63R"),
		stk("R", "R", "2^64-1R"),
		stk("R", "R", "2^64R"),
		stk("R", "R", "2^64+5R"),
		stk("R", "R", "2^128+3R"),
		stk("R", "V1", "2^60R"),
		stk("R", "V1", "2^64+5R"),
		unstk("R", "R", "R", 0),
		unstk("R", "R", "R", 1),
		tr("R", "U0", "2^249"),
		tr("R", "U0", "bal-fee"),
		tr("R", "R", "2^249"),
		wdr("R", "1"),
		with(stk("U0", "V1", "maxR"), gasR, "fee 1R: fee+amount wraps"),
		with(stk("U0", "U0", "maxR"), gasR, "fee 1R: fee+amount wraps"),
		with(tr("U0", "U1", "2^256-1"), gasR, "fee 1R: fee+amount wraps"),
		with(call("U0", "contract:0", "", "2^256-1"), func(s *sim.TxSpec) { s.Gas = 400000000000000000 }, "fee+amount wraps"),
		with(deploy("U0", counterInit, "2^256-1"), func(s *sim.TxSpec) { s.Gas = 400000000000000000 }, "fee+amount wraps"),
		call("R", "contract:0", "", "2^249"),
	}
}

func conservation(mc *modelCheck, mr *modelRun, h sim.History, res *engine.Result) []refmodel.Finding {
	var out []refmodel.Finding
	prev := mr.Model.Genesis
	cap := new(big.Int).Set(mr.Model.Genesis)
	for i, t := range mr.Totals {
		want := new(big.Int).Add(prev, mr.Minted[i])
		want.Sub(want, mr.Burnt[i])
		cap.Add(cap, mr.Minted[i])
		if want.Cmp(t) != 0 {
			site := "sum"
			diff := new(big.Int).Sub(want, t)
			for _, cs := range mr.Model.Collided {
				if diff.Cmp(new(big.Int).Mul(big.NewInt(cs.Power), sim.Pow18)) == 0 {
					site = "unbonding-key-collision:stakes-sharing-txhash-" + cs.TxHash[:8]
				}
			}
			out = append(out, refmodel.Finding{Prop: "C02", Kind: "value-not-conserved", Site: site, H: int64(i + 1),
				Detail: fmt.Sprintf("height %d: balances+bonded+unbonding = %s; previous total %s + withdrawn %s - slashed/burnt %s = %s (difference %s)", i+1, t, prev, mr.Minted[i], mr.Burnt[i], want, new(big.Int).Sub(t, want))})
		}
		for a, acc := range mr.Res.States[i].Accounts {
			b, _ := new(big.Int).SetString(acc.Balance, 10)
			if b.Cmp(cap) > 0 {
				out = append(out, refmodel.Finding{Prop: "C02", Kind: "balance-wrapped", Site: "account", H: int64(i + 1), Detail: fmt.Sprintf("height %d: account %s holds %s, more than everything that exists (%s)", i+1, a, b, cap)})
			}
		}
		prev = t
	}
	if len(mr.Totals) > 0 {
		res.Count("heights_with_conservation_checked", len(mr.Totals))
	}
	return out
}

func init() {
	engine.Register("C02", func() engine.Check {
		fams := append(sharedFamilies(),
			family{Name: "value/g3", Base: func() sim.History { return valueHistory(genesis3()) }, Menu: c02Menu(), WithEnv: true, NAppend: 3, MaxD: 2, MaxDTh: 3,
				Core: coreAppend(blocksSet(2, 3, 4), 12, 2)},
			family{Name: "value/g4L", Base: func() sim.History { return valueHistory(genesis4L()) }, Menu: c02Menu(), WithEnv: true, NAppend: 2, MaxD: 1, MaxDTh: 2,
				Core: coreAppend(blocksSet(2, 3), 12, 1)},
		)
		fams = append(fams, family{Name: "value/evm-forwarder(sum only)", Base: func() sim.History { return forwarderHistory(genesis3()) }, Menu: c02Menu()[:12], WithEnv: true, NAppend: 1, MaxD: 1, MaxDTh: 2, SumOnly: true})
		fams = append(fams, family{Name: "value/rich-sender-power-limits", Base: func() sim.History { return valueHistory(genesis3R()) }, Menu: richMenu(), WithEnv: true, NAppend: 2, MaxD: 2, MaxDTh: 3,
			Core: coreAppend(blocksSet(2, 3), 19, 0)})
		return &modelCheck{id: "C02", owners: map[string]bool{"C02": true}, balWhy: []string{"*"}, families: fams, extra: conservation, evmSum: true,
			meta: modelMeta("deviation-bounded exhaustive history exploration with reference model + conservation invariant over the implementation's full state",
				"C02 families: a value history (user stakes, two contracts, 5 free blocks) with up to 3 inserted transactions per block from a 30-template value menu (boundary amounts 1 / balance-fee / balance-fee+1 / 2^255-1 / 2^255 / 2^256-1, self-transfer, boundary-balance sender, staking 1R / 1R+1 / 0, unstaking own / foreign / BOTH genesis stakes, full unstake then re-stake twice in one block, withdrawals 0 / 1 / 84 / everything withdrawable / one above that / excessive / repeated, deployment and calls carrying value, value into a reverting contract, plain transfers to contracts) plus evidence, missed signatures (jailing) and proposer-less blocks; D<=2 over the core sub-menu (thorough: 3); plus a family that pushes value through a forwarding contract into a receiver that first reverts (nested revert, then value to the same address), judged by the model-independent conservation sum only; plus every gadget program of C17's alphabet up to length 2 (value-forwarding calls, nested reverts, CREATE, SELFDESTRUCT) in C17's history families, judged by 'total value of the node == total value of native model + reference EVM world' at every height. "+
					"Oracle: T(h) = sum of ALL balances + bonded + unbonding power read from the implementation at every height satisfies T(h) = T(h-1) + withdrawn(h) - slashed(h) - feesWithoutProposer(h); no balance exceeds genesis total + all withdrawals (no wrap-around); every individual balance equals the model's.",
				"contract programs in the menus do not self-destruct (burns by EVM definition are C17's subject)"),
			guards: func(a *engine.Agg) []string {
				if a.Counters["ok:withdraw"] == 0 || a.Counters["ok:unstake"] == 0 {
					return []string{"no successful withdraw / unstake"}
				}
				return nil
			}}
	})
}

// ---------------------------------------------------------------- C10

func genesis4c(maxVals string) *sim.Genesis {
	g := genesis3()
	g.Vals = []string{"V0", "V1", "V2"}
	g.Powers = []int64{12, 10, 10}
	if maxVals == "2" {
		// the genesis validators must satisfy the limit: two of them; V2 becomes a candidate by staking
		g.Vals = []string{"V0", "V1"}
		g.Powers = []int64{12, 10}
	}
	gWith(g, "maxValidatorCnt", maxVals)
	return g
}

func c10History(g *sim.Genesis) sim.History {
	first := blk(tr("U0", "U1", "1"))
	if len(g.Vals) == 2 {
		first = blk(stk("V2", "V2", "10R"))
	}
	return sim.History{Gen: g, Blocks: append([]sim.Block{
		first,
		blk(stk("V3", "V3", "10R"), stk("U0", "V2", "2R")),
		blk(prop("V0", 1, 1, 1, `{"maxValidatorCnt":"2"}`)),
		blk(vote("V0", 0, 0), vote("V1", 0, 0), vote("V2", 0, 0)),
	}, emptyBlocks(5)...)}
}

func c10Menu() []sim.TxSpec {
	return []sim.TxSpec{
		stk("V3", "V3", "2R"),
		stk("W", "W", "10R"),
		stk("W", "W", "12R"),
		stk("U0", "V3", "1R"),
		stk("U1", "V2", "2R"),
		unstk("U0", "U0", "V2", 0),
		unstk("V1", "V1", "V1", 0),
		unstk("V3", "V3", "V3", 0),
		unstk("V2", "V2", "V2", 0),
		stk("V1", "V1", "2R"),
		prop("V1", 1, 1, 1, `{"minValidatorStake":"11000000000000000000"}`),
		prop("V1", 1, 1, 1, `{"maxValidatorCnt":"4"}`),
		vote("V0", 1, 0), vote("V1", 1, 0), vote("V2", 1, 0),
	}
}

func init() {
	engine.Register("C10", func() engine.Check {
		fams := append(sharedFamilies(),
			family{Name: "candidates/max3", Base: func() sim.History { return c10History(genesis4c("3")) }, Menu: c10Menu(), WithEnv: true, NAppend: 2, MaxD: 2, MaxDTh: 3,
				Core: coreAppend(blocksSet(1, 2, 3, 4, 5), 10, 1), Restarts: []int64{2, 4, 6}},
			family{Name: "candidates/max2", Base: func() sim.History { return c10History(genesis4c("2")) }, Menu: c10Menu(), WithEnv: true, NAppend: 2, MaxD: 2, MaxDTh: 2,
				Core: coreAppend(blocksSet(1, 2, 4), 10, 0), Restarts: []int64{3, 5}},
		)
		fams = append(fams, family{Name: "candidates/minimum-stake-raised", Base: func() sim.History {
			h := c10History(genesis4c("3"))
			h.Blocks[2].Txs = []sim.TxSpec{prop("V0", 1, 1, 1, `{"minValidatorStake":"11000000000000000000"}`)}
			return h
		}, Menu: c10Menu(), WithEnv: true, NAppend: 1, MaxD: 1, MaxDTh: 2, Restarts: []int64{6, 7}})
		return &modelCheck{id: "C10", owners: map[string]bool{"C10": true}, families: fams,
			meta: modelMeta("deviation-bounded exhaustive history exploration; validator updates folded with tendermint's real ValidatorSet and compared with the staking ledger",
				"C10 families: 4 candidates (three genesis validators 12/10/10 with a tie, a fourth self-staking 10) around maxValidatorCnt 3 and 2, a passing proposal that lowers the count, menus of self-staking / delegation / unstaking / power ties at the cut / governance changes of count and minimum stake, evidence, jailing, and one restart at several boundaries; D<=2 (thorough 3). "+
					"Oracle after every EndBlock(h): the update list is accepted by the real tendermint ValidatorSet.UpdateWithChangeSet (no duplicates, no removal of a non-member, no negative power, no emptied set); folding all updates onto the genesis set gives exactly a valid top-N (N and minimum stake as in force during block h) of the delegatees read from the implementation's own state of height h-1, every member with voting power = total bonded power; ties at the cut are left open.")}
	})
}

// ---------------------------------------------------------------- C11

func c11Menu() []sim.TxSpec {
	return []sim.TxSpec{
		stk("U0", "V1", "1R"),
		stk("U1", "V1", "2R"),
		unstk("U0", "U0", "V1", 0),
		unstk("U0", "U0", "V1", 1),
		unstk("V1", "V1", "V1", 0),
		stk("V1", "V1", "3R"),
		stk("V1", "V1", "2R"),
		unstk("U1", "U1", "U1", 0),
		stk("U1", "U1", "2R"),
		stk("U0", "U1", "1R"),
		unstk("V1", "V1", "V1", 1),
		unstk("U0", "U0", "U1", 0),
		chk(stk("U1", "V1", "2R")), chk(unstk("U0", "U0", "V1", 0)), chk(unstk("V1", "V1", "V1", 0)),
	}
}

func c11History(g *sim.Genesis) sim.History {
	return sim.History{Gen: g, Blocks: append([]sim.Block{
		blk(stk("U0", "V1", "3R"), stk("U1", "U1", "4R")),
		blk(stk("U0", "V1", "1R")),
	}, emptyBlocks(5)...)}
}

// belowMinimumHistory: delegatees whose OWN stake is positive but below the validator minimum while stakes stay bonded
// to them: W (self 2R+1R, then the 2R stake released), and later V1/V2 when governance raises the minimum to 11 RIGO;
// a validator that delegates to another validator.
func belowMinimumHistory(g *sim.Genesis) sim.History {
	return sim.History{Gen: g, Blocks: append([]sim.Block{
		blk(stk("W", "W", "2R"), stk("W", "W", "1R"), stk("U0", "W", "1R")),
		blk(unstk("W", "W", "W", 0), stk("V2", "V1", "2R")),
		blk(prop("V0", 1, 1, 1, `{"minValidatorStake":"11000000000000000000"}`), stk("U1", "W", "1R")),
		blk(vote("V0", 0, 0), vote("V1", 0, 0), vote("V2", 0, 0)),
	}, emptyBlocks(5)...)}
}

func init() {
	engine.Register("C11", func() engine.Check {
		fams := append(sharedFamilies(),
			family{Name: "stakes/g3", Base: func() sim.History { return c11History(genesis3()) }, Menu: c11Menu(), WithEnv: true, NAppend: 3, MaxD: 2, MaxDTh: 3,
				Core: coreAppend(blocksSet(2, 3), 12, 2)},
			family{Name: "stakes/g3s", Base: func() sim.History { return c11History(genesis3s()) }, Menu: c11Menu(), WithEnv: true, NAppend: 3, MaxD: 2, MaxDTh: 2,
				Core: coreAppend(blocksSet(2), 12, 2)},
		)
		fams = append(fams, family{Name: "stakes/self-below-minimum", Base: func() sim.History { return belowMinimumHistory(genesis3()) },
			Menu: append(c11Menu(), stk("U1", "W", "1R"), unstk("W", "W", "W", 1), stk("W", "W", "1R"), unstk("U0", "U0", "W", 0), stk("V0", "V1", "1R")), WithEnv: true, NAppend: 1, MaxD: 1, MaxDTh: 2})
		return &modelCheck{id: "C11", owners: map[string]bool{"C11": true}, families: fams, extra: stakeInvariants,
			meta: modelMeta("deviation-bounded exhaustive history exploration with reference model + per-height invariants over the implementation's stake records",
				"C11 families: stake-centred histories with up to 3 operations on the SAME delegatee in one block (stake, delegate, partial unstake, full unstake of the self stake forcing the delegators out, re-stake after deletion, second genesis stake), evidence (slashing incl. forfeiture) and jailing; D<=2 (thorough 3); a family with delegatees whose own stake is positive but below the validator minimum (partial release of the self stake; governance raising the minimum) and a validator delegating to another validator. "+
					"Oracle at every height, read from the implementation: per delegatee TotalPower = sum of its stakes and SelfPower = sum of the owner's stakes; the stakes/total_power query for EVERY height (asked after the last block) equals the sum over all delegatees of that height; every stake created by a successful staking transaction (keyed by its tx hash; genesis stakes by owner) is found in exactly one place - bonded under its delegatee or unbonding - with owner and target unchanged and power changed only by the slashing rule, until it is refunded.")}
	})
}

func stakeInvariants(mc *modelCheck, mr *modelRun, h sim.History, res *engine.Result) []refmodel.Finding {
	var out []refmodel.Finding
	add := func(hh int64, kind, f string, a ...interface{}) {
		out = append(out, refmodel.Finding{Prop: "C11", Kind: kind, Site: "invariant", H: hh, Detail: fmt.Sprintf(f, a...)})
	}
	for i, st := range mr.Res.States {
		hh := int64(i + 1)
		sum := int64(0)
		where := map[string]int{}
		for a, d := range st.Delegatees {
			t, s := int64(0), int64(0)
			for _, sk := range d.Stakes {
				t += sk.Power
				if sk.Owner == a {
					s += sk.Power
				}
				if sk.To != a {
					add(hh, "stake-under-wrong-delegatee", "height %d: stake %s targets %s but is bonded under %s", hh, sk.TxHash, sk.To, a)
				}
				where[sk.TxHash+"/"+sk.Owner]++
			}
			if t != d.Total || s != d.Self {
				add(hh, "power-not-sum-of-stakes", "height %d delegatee %s: total/self power %d/%d, stakes sum to %d/%d", hh, a, d.Total, d.Self, t, s)
			}
			sum += d.Total
		}
		for _, f := range st.Frozen {
			where[f.TxHash+"/"+f.Owner]++
		}
		for k, n := range where {
			if n > 1 {
				add(hh, "stake-recorded-twice", "height %d: stake %s is recorded in %d places", hh, k, n)
			}
		}
	}
	// "recorded in exactly one place (bonded or unbonding)": a stake the model expects in the unbonding list and the
	// implementation does not hold there (or vice versa) is C11's concern as much as C12's
	for _, f := range mr.Findings {
		if f.Prop == "C12" && (f.Kind == "unbonding-stake-missing" || f.Kind == "unbonding-stake-unexpected") {
			g := f
			g.Prop = "C11"
			g.Kind = "stake-not-in-exactly-one-place"
			out = append(out, g)
		}
	}
	// total_power query for EVERY committed height (asked after the last block: the parameters in force by then may
	// differ from those of the queried height), and for the latest height through height 0
	if n := len(mr.Res.States); n > 0 && !mr.Res.Chain.Dead {
		for i, st := range mr.Res.States {
			sum := int64(0)
			for _, d := range st.Delegatees {
				for _, sk := range d.Stakes {
					sum += sk.Power
				}
			}
			hs := []int64{int64(i + 1)}
			if i == n-1 {
				hs = append(hs, 0)
			}
			for _, hq := range hs {
				_, resp := mr.Res.Chain.Query("stakes/total_power", nil, hq)
				if string(resp.Value) != fmt.Sprint(sum) {
					add(int64(i+1), "total-power-query", "stakes/total_power at height %d (asked as %d after block %d) answers %q, the stakes bonded at that height sum to %d", i+1, hq, n, string(resp.Value), sum)
				}
				res.Count("total_power_queries", 1)
			}
		}
	}
	return out
}

// ---------------------------------------------------------------- C12

func c12History(g *sim.Genesis, period string) sim.History {
	h := sim.History{Gen: g, Blocks: append([]sim.Block{
		blk(stk("U0", "V1", "3R"), stk("U1", "V1", "2R"), stk("U0", "V1", "1R")),
		blk(),
		blk(prop("V0", 1, 1, 1, `{"lazyRewardBlocks":"`+period+`"}`)),
		blk(vote("V0", 0, 0), vote("V1", 0, 0), vote("V2", 0, 0)),
	}, emptyBlocks(6)...)}
	return h
}

func c12Menu() []sim.TxSpec {
	return []sim.TxSpec{
		unstk("U0", "U0", "V1", 0),
		unstk("U0", "U0", "V1", 1),
		unstk("U1", "U1", "V1", 0),
		unstk("V1", "V1", "V1", 0),
		unstk("V1", "U0", "V1", 0),
		unstk("W", "U0", "V1", 0),
		unstk("U1", "U0", "V1", 1),
		unstk("V2", "V2", "V2", 0),
		chk(unstk("U0", "U0", "V1", 0)), chk(unstk("V1", "V1", "V1", 0)),
	}
}

func init() {
	engine.Register("C12", func() engine.Check {
		fams := append(sharedFamilies(),
			family{Name: "unbonding/period2->1", Base: func() sim.History { return c12History(genesis3(), "1") }, Menu: c12Menu(), WithEnv: true, NAppend: 2, MaxD: 2, MaxDTh: 3,
				Core: coreAppend(blocksSet(3, 4, 5, 6), 8, 1)},
			family{Name: "unbonding/period2->4", Base: func() sim.History { return c12History(genesis3(), "4") }, Menu: c12Menu(), WithEnv: true, NAppend: 2, MaxD: 2, MaxDTh: 2,
				Core: coreAppend(blocksSet(4, 5, 6), 6, 0)},
		)
		fams = append(fams, family{Name: "unbonding/period4->1", Base: func() sim.History {
			h := c12History(gWith(genesis3(), "lazyRewardBlocks", "4"), "1")
			return h
		}, Menu: c12Menu(), WithEnv: true, NAppend: 2, MaxD: 2, MaxDTh: 2, Core: coreAppend(blocksSet(3, 4, 5, 6), 4, 0)})
		// a LONG chain: the releases and refunds straddle height 256, where a one-byte height rolls over (key order of the
		// unbonding ledger, any narrowed or byte-wise compared height)
		fams = append(fams, family{Name: "unbonding/across-height-256", Base: func() sim.History {
			h := sim.History{Gen: genesis3(), Blocks: []sim.Block{blk(stk("U0", "V1", "3R"), stk("U1", "V1", "2R"), stk("U0", "V1", "1R"))}}
			h.Blocks = append(h.Blocks, emptyBlocks(250)...) // heights 2..251
			h.Blocks = append(h.Blocks, blk(unstk("U0", "U0", "V1", 0)), blk(unstk("U1", "U1", "V1", 0)), blk(unstk("U0", "U0", "V1", 1)))
			h.Blocks = append(h.Blocks, emptyBlocks(6)...)
			return h
		}, Menu: c12Menu(), NAppend: 1, MaxD: 1, MaxDTh: 2, OnlyBlocks: []int{250, 251, 252, 253, 254, 255, 256}, Restarts: []int64{253, 255}})
		return &modelCheck{id: "C12", owners: map[string]bool{"C12": true}, balWhy: []string{"refund"}, families: fams,
			meta: modelMeta("deviation-bounded exhaustive history exploration with reference model of the unbonding queue",
				"C12 families: stakes by two delegators and the validator itself, unstake attempts by owner / delegatee / stranger / another delegator, 1-3 stakes unbonding concurrently (also force-released by the validator leaving), and a governance change of the unbonding period (2->1, 2->4 and 4->1) landing before, at and after releases; 10 blocks; D<=2 (thorough 3); plus a 260-block history whose releases and refunds straddle height 256 (one-byte roll-over of a height: key order of the unbonding ledger), single deviations in blocks 251-257, restarts after 253 / 255. "+
					"Oracle: an unstake succeeds only for the stake's owner; from release on the stake is in the unbonding list (and carries no power: C11's sums); it is refunded exactly once, in full (power x 10^18), to the owner, at release + the period in force at release and not before; the unbonding list and every touched balance equal the model's at every height.")}
	})
}

// ---------------------------------------------------------------- C13

func c13History(g *sim.Genesis) sim.History {
	return sim.History{Gen: g, Blocks: append([]sim.Block{
		blk(),
		blk(stk("U0", "V1", "3R")),
		blk(stk("U1", "V0", "2R")),
	}, emptyBlocks(6)...)}
}

func c13Menu() []sim.TxSpec {
	return []sim.TxSpec{
		unstk("U0", "U0", "V1", 0),
		stk("U1", "V1", "3R"),
		wdr("V0", "84"),
		wdr("V0", "85"),
		wdr("V0", "1"),
		wdr("U0", "21"),
		wdr("U0", "22"),
		wdr("V0", "0"),
		wdr("V0", "100000"),
		wdr("V0", "168"),
		stk("U0", "V0", "1R"),
		wdr("W", "1"),
		chk(wdr("V0", "84")), chk(wdr("U0", "21")), chk(stk("U1", "V1", "3R")),
	}
}

func init() {
	engine.Register("C13", func() engine.Check {
		absent8 := func(h sim.History) sim.History { return h }
		_ = absent8
		fams := append(sharedFamilies(),
			family{Name: "rewards/g3", Base: func() sim.History { return c13History(genesis3()) }, Menu: c13Menu(), WithEnv: true, NAppend: 2, MaxD: 2, MaxDTh: 3,
				Core: coreAppend(blocksSet(3, 4, 5, 6, 7), 8, 1)},
			family{Name: "rewards/no-block-1-change", Base: func() sim.History {
				h := c13History(genesis3())
				return h
			}, Menu: c13Menu(), WithEnv: true, NAppend: 1, MaxD: 1, MaxDTh: 2},
		)
		// the reward rate is a governance parameter: a passed proposal changes it in mid-history (with and without a new
		// parameter version, raised and lowered); from the applying height on every signed block pays the new rate
		for _, opt := range []string{`{"rewardPerPower":"11"}`, `{"rewardPerPower":"2","version":"2"}`} {
			opt := opt
			fams = append(fams, family{Name: "rewards/rate-changed-by-governance " + opt, Base: func() sim.History {
				h := c13History(genesis3())
				h.Blocks[2].Txs = append(h.Blocks[2].Txs, prop("V0", 1, 1, 1, opt))
				h.Blocks[3].Txs = append(h.Blocks[3].Txs, vote("V0", 0, 0), vote("V1", 0, 0), vote("V2", 0, 0))
				h.Blocks = append(h.Blocks, emptyBlocks(2)...)
				return h
			}, Menu: c13Menu(), WithEnv: true, NAppend: 1, MaxD: 1, MaxDTh: 2, Restarts: []int64{5, 6, 7}})
		}
		// a LONG chain: issuance, withdrawals and missed signatures around height 256 (one-byte roll-over of a height)
		fams = append(fams, family{Name: "rewards/across-height-256", Base: func() sim.History {
			h := sim.History{Gen: genesis3(), Blocks: []sim.Block{blk(), blk(stk("U0", "V1", "3R")), blk(stk("U1", "V0", "2R"))}}
			h.Blocks = append(h.Blocks, emptyBlocks(248)...) // heights 4..251
			h.Blocks = append(h.Blocks, blk(wdr("V0", "1000")), blk(), blk(wdr("U0", "21")), blk(), blk(wdr("V0", "7")), blk(), blk(), blk())
			return h
		}, Menu: c13Menu(), WithEnv: true, NAppend: 1, MaxD: 1, MaxDTh: 2, OnlyBlocks: []int{252, 253, 254, 255, 256, 257}, Restarts: []int64{254, 256}})
		return &modelCheck{id: "C13", owners: map[string]bool{"C13": true}, balWhy: []string{"withdraw"}, families: fams,
			meta: modelMeta("deviation-bounded exhaustive history exploration with reference model of reward issuance and withdrawal",
				"C13 families: staking changes in blocks 2-3 (so that the 4-block provenance lag is crossed inside the 9-block horizon) x per-block signing patterns of the 3 validators (absent-signer slot of every block) x withdrawal requests {0, 1, exact, exact+1, twice in a block, excessive, by an account without rewards}; D<=2 (thorough 3); a 260-block history with issuance, withdrawals and missed signatures around height 256; two families in which a passed governance proposal changes rewardPerPower in mid-history (7->11 keeping the parameter version, 7->2 with a new version), with one restart around the applying height. "+
					"Oracle: issuance in block B to owner O = sum over validators that signed B-1 of power x rewardPerPower over O's stakes in the stake list from which consensus derived that validator's voting power (version B-4; the genesis list for B<=4 - the harness knows the provenance because it IS the consensus engine); nobody else's record changes; withdrawable = issued - withdrawn at every height; a withdrawal succeeds only if requested <= withdrawable at that moment and credits exactly the requested amount.")}
	})
}

// ---------------------------------------------------------------- C14

func c14History(g *sim.Genesis) sim.History {
	return sim.History{Gen: g, Blocks: append([]sim.Block{
		blk(stk("U0", "V1", "1R"), stk("U1", "V1", "2R"), stk("W", "V1", "3R"), stk("U0", "V2", "5R")),
		blk(),
		blk(prop("V0", 1, 3, 1, `{"gasPrice":"4"}`, `{"gasPrice":"5"}`)),
		blk(vote("V1", 0, 0), vote("V2", 0, 1)),
	}, emptyBlocks(5)...)}
}

func init() {
	engine.Register("C14", func() engine.Check {
		var fams []family
		fams = append(fams, sharedFamilies()...)
		for _, ratio := range []string{"50", "1", "33", "100"} {
			ratio := ratio
			fams = append(fams, family{Name: "slash/ratio" + ratio, Base: func() sim.History { return c14History(gWith(genesis3s(), "slashRatio", ratio)) },
				Menu: []sim.TxSpec{vote("V0", 0, 0), vote("V1", 0, 1), stk("U1", "V1", "1R"), unstk("U0", "U0", "V1", 0)}, WithEnv: true, NAppend: 1, MaxD: 2, MaxDTh: 3,
				Core: func(ss *slotSet, s slot, ch int) bool {
					return s.kind == slotEvidence || (s.kind == slotAbsent && ch <= 2)
				}})
		}
		for _, wp := range [][2]string{{"2", "2"}, {"4", "1"}} {
			wp := wp
			fams = append(fams, family{Name: "jail/window" + wp[0] + "min" + wp[1], Base: func() sim.History {
				return c14History(gWith(genesis3s(), "signedBlocksWindow", wp[0], "minSignedBlocks", wp[1]))
			}, Menu: []sim.TxSpec{stk("U1", "V1", "1R")}, WithEnv: true, NAppend: 1, MaxD: 2, MaxDTh: 3,
				Core: func(ss *slotSet, s slot, ch int) bool { return s.kind == slotAbsent }})
		}
		// misses on both sides of a restart: V2 does not sign two blocks in a row (jailed at the second with window 3 / minimum 2);
		// restarts after heights 4, 5, 6 - the window bookkeeping must survive; single deviations add / remove misses and evidence
		fams = append(fams, family{Name: "jail/misses-across-a-restart", Base: func() sim.History {
			h := c14History(genesis3s())
			h.Blocks[4].Opts.Absent = []string{"V2"}
			h.Blocks[5].Opts.Absent = []string{"V2"}
			return h
		}, Menu: []sim.TxSpec{stk("U1", "V1", "1R")}, WithEnv: true, NAppend: 1, MaxD: 1, MaxDTh: 2, Restarts: []int64{4, 5, 6}})
		fams = append(fams, family{Name: "jail/window4min2-misses-across-a-restart", Base: func() sim.History {
			h := c14History(gWith(genesis3s(), "signedBlocksWindow", "4", "minSignedBlocks", "2"))
			h.Blocks[3].Opts.Absent = []string{"V1"}
			h.Blocks[5].Opts.Absent = []string{"V1"}
			h.Blocks[6].Opts.Absent = []string{"V1"}
			return h
		}, Menu: []sim.TxSpec{stk("U1", "V1", "1R")}, WithEnv: true, NAppend: 1, MaxD: 1, MaxDTh: 2, Restarts: []int64{4, 5, 6}})
		// the jailing rule's own parameters are changed by governance in mid-history (window 3 -> 2, minimum 2 -> 2: from then on
		// a single miss jails); per-block absent patterns on both sides of the change
		fams = append(fams, family{Name: "jail/window-changed-by-governance", Base: func() sim.History {
			h := c14History(genesis3s())
			h.Blocks[2].Txs = []sim.TxSpec{prop("V0", 1, 1, 1, `{"signedBlocksWindow":"2","minSignedBlocks":"2"}`)}
			h.Blocks[3].Txs = []sim.TxSpec{vote("V0", 0, 0), vote("V1", 0, 0), vote("V2", 0, 0)}
			return h
		}, Menu: []sim.TxSpec{stk("U1", "V1", "1R")}, WithEnv: true, NAppend: 1, MaxD: 2, MaxDTh: 2,
			Core: func(ss *slotSet, s slot, ch int) bool { return s.kind == slotAbsent }})
		// a LONG chain: evidence and missed signatures around height 256 with an open proposal (window bookkeeping by height)
		fams = append(fams, family{Name: "slash-jail/across-height-256", Base: func() sim.History {
			b := c14History(genesis3s())
			h := sim.History{Gen: b.Gen, Blocks: []sim.Block{b.Blocks[0]}}
			h.Blocks = append(h.Blocks, emptyBlocks(250)...) // heights 2..251
			h.Blocks = append(h.Blocks, blk(prop("V0", 1, 3, 1, `{"gasPrice":"4"}`, `{"gasPrice":"5"}`)), blk(vote("V1", 0, 0), vote("V2", 0, 1)))
			h.Blocks = append(h.Blocks, emptyBlocks(6)...)
			return h
		}, Menu: []sim.TxSpec{stk("U1", "V1", "1R")}, WithEnv: true, NAppend: 1, MaxD: 2, MaxDTh: 2, OnlyBlocks: []int{253, 254, 255, 256, 257},
			Core: func(ss *slotSet, s slot, ch int) bool {
				return s.kind == slotAbsent || (s.kind == slotEvidence && ch == 1)
			}, Restarts: []int64{255}})
		return &modelCheck{id: "C14", owners: map[string]bool{"C14": true}, families: fams, extra: slashFrame,
			meta: modelMeta("deviation-bounded exhaustive exploration of evidence / missed-signature sequences with reference model (amounts) and per-block frame condition",
				"C14 families: a validator with stakes of power 10,1,2,3 (so that rounding and forfeiture fire) and another with 8,5, an open two-option proposal with the offenders' votes, slash ratio in {1,33,50,100}, (window,minimum) in {(3,2),(2,2),(4,1)}; per-block evidence entry from {V1, unknown address, V2, V1 twice, V1+V2, a non-validator} and per-block missed-signature pattern, in every pair of blocks (thorough: triples); two families whose base history has a validator miss signatures on both sides of a node restart (restart after height 4, 5 or 6; window/minimum (3,2) and (4,2)). "+
					"Oracle: per piece of evidence every stake of the named validator loses floor(p*r/100) (forfeited if that is 0), its voter weight and the proposal total in OPEN proposals shrink by floor(w*r/100), an already cast vote counts with the reduced weight in its option's tally, majority recomputed; nothing else changes in that BeginBlock: delegatees other than the named ones keep exactly their stake records (frame); jailing exactly when signed blocks in the window fall below the minimum: all stakes moved to unbonding, validator leaves the set; validators above the threshold untouched.")}
	})
}

// slashFrame: delegatees not named by evidence and not jailed keep their stake records across BeginBlock
// unless a transaction of the block touched them — compared through the model (which applies only the rule) —
// plus a direct frame check on balances: evidence never moves a balance.
func slashFrame(mc *modelCheck, mr *modelRun, h sim.History, res *engine.Result) []refmodel.Finding {
	var out []refmodel.Finding
	for i, st := range mr.Res.States {
		if i == 0 || i >= len(h.Blocks) {
			continue
		}
		b := h.Blocks[i]
		if len(b.Opts.Evidence) == 0 || len(b.Txs) > 0 {
			continue
		}
		res.Count("evidence_only_blocks_frame_checked", 1)
		prev := mr.Res.States[i-1]
		named := map[string]bool{}
		for _, e := range b.Opts.Evidence {
			named[sim.W(e).Hex()] = true
		}
		// with no transaction in the block, balances may change only by refunds / proposer fees (none: no fees)
		for a, acc := range st.Accounts {
			if p, ok := prev.Accounts[a]; ok && p.Balance != acc.Balance {
				refund := false
				for _, f := range prev.Frozen {
					if f.Owner == a && f.Refund <= int64(i+1) {
						refund = true
					}
				}
				if !refund {
					out = append(out, refmodel.Finding{Prop: "C14", Kind: "evidence-moved-a-balance", Site: "frame", H: int64(i + 1),
						Detail: fmt.Sprintf("height %d (evidence %v, no transactions): balance of %s changed %s -> %s", i+1, b.Opts.Evidence, a, p.Balance, acc.Balance)})
				}
			}
		}
		absent := map[string]bool{}
		for _, x := range b.Opts.Absent {
			absent[sim.W(x).Hex()] = true
		}
		for a, d := range prev.Delegatees {
			if named[a] || absent[a] {
				continue
			}
			nd, ok := st.Delegatees[a]
			if !ok || fmt.Sprint(nd.Stakes) != fmt.Sprint(d.Stakes) {
				out = append(out, refmodel.Finding{Prop: "C14", Kind: "bystander-changed", Site: "frame", H: int64(i + 1),
					Detail: fmt.Sprintf("height %d (evidence %v, no transactions): delegatee %s, not named, changed: %v -> %v", i+1, b.Opts.Evidence, a, d.Stakes, nd.Stakes)})
			}
		}
	}
	return out
}

// ---------------------------------------------------------------- C15

func c15History(g *sim.Genesis) sim.History {
	return sim.History{Gen: g, Blocks: append([]sim.Block{
		blk(), blk(stk("V3", "V3", "11R")),
	}, emptyBlocks(8)...)}
}

// twoProposals: two proposals that apply at the same height and overlap in one field (the later key wins it,
// every other field of both must survive).
func twoProposals() []sim.TxSpec {
	return []sim.TxSpec{prop("V0", 1, 1, 2, `{"gasPrice":"20","slashRatio":"40"}`), prop("V1", 1, 1, 2, `{"slashRatio":"60","minTrxGas":"6"}`)}
}

func c15Menu() []sim.TxSpec {
	return []sim.TxSpec{
		// core
		prop("V0", 1, 1, 1, `{"gasPrice":"4"}`),
		prop("V1", 1, 1, 1, `{"slashRatio":"60"}`),
		vote("V0", 0, 0), vote("V1", 0, 0), vote("V2", 0, 0),
		vote("V0", 1, 0), vote("V1", 1, 0), vote("V2", 1, 0),
		prop("V0", 1, 2, 1, `{"gasPrice":"5","minTrxGas":"6"}`, `{"gasPrice":"6"}`),
		vote("V0", 0, 1), vote("V1", 0, 1),
		vote("V3", 0, 0),
		// rest
		prop("V0", 0, 1, 1, `{"gasPrice":"4"}`),
		prop("V0", 1, 1, 0, `{"gasPrice":"4"}`),
		prop("V0", 1, 4, 1, `{"gasPrice":"4"}`),
		prop("V0", 2, 3, 2, `{"maxValidatorCnt":"2"}`),
		prop("U0", 1, 1, 1, `{"gasPrice":"4"}`),
		prop("V3", 1, 1, 1, `{"gasPrice":"7"}`),
		prop("V0", 1, 1, 1, `{}`),
		vote("W", 0, 0), vote("V0", 0, 2), vote("U0", 0, 0),
		stk("U1", "V1", "5R"), unstk("V2", "V2", "V2", 0),
		// votes and a proposal that reach the mempool check only: they must leave no trace in tallies, voters, parameters
		chk(vote("V1", 0, 0)), chk(vote("V2", 0, 0)), chk(vote("V0", 0, 1)), chk(prop("V1", 1, 1, 1, `{"slashRatio":"60"}`)),
	}
}

func init() {
	engine.Register("C15", func() engine.Check {
		fams := append(sharedFamilies(),
			family{Name: "governance/g3", Base: func() sim.History { return c15History(genesis3()) }, Menu: c15Menu(), WithEnv: true, NAppend: 3, MaxD: 2, MaxDTh: 3,
				Core: coreAppend(blocksSet(2, 3, 4, 5), 12, 1)},
			family{Name: "governance/two-proposals", Base: func() sim.History {
				h := c15History(genesis3())
				h.Blocks[2].Txs = twoProposals()
				h.Blocks[3].Txs = []sim.TxSpec{vote("V0", 0, 0), vote("V1", 0, 0), vote("V2", 0, 0), vote("V0", 1, 0), vote("V1", 1, 0), vote("V2", 1, 0)}
				return h
			}, Menu: c15Menu(), WithEnv: true, NAppend: 1, MaxD: 1, MaxDTh: 2},
		)
		fams = append(fams, family{Name: "governance/late-apply", Base: func() sim.History {
			h := c15History(genesis3())
			h.Blocks[2].Txs = []sim.TxSpec{prop("V0", 1, 1, 4, `{"gasPrice":"7","minTrxGas":"6"}`)}
			h.Blocks[3].Txs = []sim.TxSpec{vote("V0", 0, 0), vote("V1", 0, 0), vote("V2", 0, 0)}
			return h
		}, Menu: c15Menu(), WithEnv: true, NAppend: 1, MaxD: 1, MaxDTh: 2})
		// the limits that govern proposals themselves are changed by a passed proposal; afterwards proposals are submitted
		// whose voting period / applying height are valid under exactly one of the two parameter sets
		fams = append(fams, family{Name: "governance/limits-changed", Base: func() sim.History {
			h := c15History(genesis3())
			h.Blocks[2].Txs = []sim.TxSpec{prop("V0", 1, 1, 1, `{"minVotingPeriodBlocks":"2","maxVotingPeriodBlocks":"2","lazyApplyingBlocks":"2"}`)}
			h.Blocks[3].Txs = []sim.TxSpec{vote("V0", 0, 0), vote("V1", 0, 0), vote("V2", 0, 0)}
			return h
		}, Menu: []sim.TxSpec{
			prop("V1", 1, 1, 1, `{"gasPrice":"4"}`), prop("V1", 1, 2, 2, `{"gasPrice":"4"}`), prop("V1", 1, 2, 1, `{"gasPrice":"4"}`),
			prop("V1", 1, 3, 2, `{"gasPrice":"4"}`), prop("V1", 1, 1, 2, `{"gasPrice":"4"}`), prop("V1", 1, 3, 1, `{"gasPrice":"4"}`),
			vote("V0", 1, 0), vote("V1", 1, 0), vote("V2", 1, 0),
		}, WithEnv: true, NAppend: 1, MaxD: 2, MaxDTh: 3, Core: coreAppend(blocksSet(4, 5, 6, 7), 9, 0)})
		// votes trickle in over two blocks and do not reach the majority; single deviations add delivered or mempool-only votes
		fams = append(fams, family{Name: "governance/partial-votes", Base: func() sim.History {
			h := c15History(genesis3())
			h.Blocks[2].Txs = []sim.TxSpec{prop("V0", 1, 2, 1, `{"gasPrice":"5"}`, `{"gasPrice":"6"}`)}
			h.Blocks[3].Txs = []sim.TxSpec{vote("V0", 0, 0)}
			h.Blocks[4].Txs = []sim.TxSpec{vote("V2", 0, 1)}
			return h
		}, Menu: c15Menu(), WithEnv: true, NAppend: 1, TxSlots: true, MaxD: 1, MaxDTh: 2})
		// a LONG chain: a proposal whose window, close and application straddle height 256 (one-byte roll-over of a height)
		fams = append(fams, family{Name: "governance/across-height-256", Base: func() sim.History {
			h := sim.History{Gen: genesis3(), Blocks: []sim.Block{blk(), blk(stk("V3", "V3", "11R"))}}
			h.Blocks = append(h.Blocks, emptyBlocks(250)...) // heights 3..252
			h.Blocks = append(h.Blocks, blk(prop("V0", 1, 2, 1, `{"gasPrice":"5"}`, `{"gasPrice":"6"}`)), blk(vote("V0", 0, 0), vote("V1", 0, 0)), blk(vote("V2", 0, 1)))
			h.Blocks = append(h.Blocks, emptyBlocks(6)...)
			return h
		}, Menu: c15Menu()[:12], NAppend: 1, MaxD: 1, MaxDTh: 2, OnlyBlocks: []int{252, 253, 254, 255, 256, 257, 258}, Restarts: []int64{254, 256}})
		return &modelCheck{id: "C15", owners: map[string]bool{"C15": true}, families: fams, extra: govProbe,
			meta: modelMeta("deviation-bounded exhaustive history exploration with reference model of proposals, votes, tally and timed application",
				"C15 families: 0-3 inserted governance transactions per block from a 28-template menu (proposals by validator / later-joined validator / delegator / stranger with start-period-applying heights from {invalid-early, minimal, later, too long, applying too early}, option documents {one field, several fields, two options, empty}; votes and re-votes by snapshot members, a validator that joined later, outsiders, bad choice; votes and a proposal that only reach the mempool check (CheckTx, never delivered); stake changes meanwhile), evidence against voters, a family with two passed proposals applying at the SAME height, one whose applying height lies several blocks after the close (parameters must not move before it), one in which votes trickle in over two blocks without reaching the majority, and one in which a passed proposal changes the voting-period limits and the applying delay themselves (later proposals valid under exactly one of the two parameter sets), and a 260-block history whose proposal window, close and application straddle height 256; 10 blocks otherwise; D<=2 (thorough 3). "+
					"Oracle: success conditions as necessary conditions (proposer in the validator set last reported, voter in the snapshot with the power recorded then, height inside the window, one vote per voter - the latest replaces); tally from the snapshot powers; pass iff at close some option >= floor(2T/3) of the recorded total; parameters unchanged before the applying height; after application every field the option leaves unset keeps its value (also relative to a second proposal applied in the same block); parameters in force == gov_params query == model at every height.")}
	})
}

// govProbe: behavioural probe — after the last block a transfer priced with the model's CURRENT gas price must
// pass the price check and one priced differently must fail it.
func govProbe(mc *modelCheck, mr *modelRun, h sim.History, res *engine.Result) []refmodel.Finding {
	c := mr.Res.Chain
	if c == nil || c.Dead {
		return nil
	}
	m := mr.Model
	price := m.P("gasPrice")
	env := c.EnvFor(tr("W", "U0", "1"), nil)
	env.GasPrice = price
	env.MinGas = m.P("minTrxGas").Uint64()
	tx := c.Build(tr("W", "U0", "1"), env)
	bz, _ := tx.Encode()
	rec := c.CheckTxRaw(bz, "probe model price")
	res.Count("price_probes", 1)
	if rec.Code != 0 && (rec.Panic != "" || contains(rec.Log, "gas price") || contains(rec.Log, "invalid gas")) {
		return []refmodel.Finding{{Prop: "C15", Kind: "active-price-differs-from-model", Site: "probe", H: m.H,
			Detail: fmt.Sprintf("after height %d a transfer priced %s (the model's governance price) with gas %d is rejected: %s", m.H, price, env.MinGas, firstLineOf(rec.Log))}}
	}
	return nil
}

func contains(s, sub string) bool {
	return len(sub) > 0 && len(s) >= len(sub) && (indexOf(s, sub) >= 0)
}
func indexOf(s, sub string) int {
	for i := 0; i+len(sub) <= len(s); i++ {
		if s[i:i+len(sub)] == sub {
			return i
		}
	}
	return -1
}

// ---------------------------------------------------------------- C16

func c16Menu() []sim.TxSpec {
	var m []sim.TxSpec
	bases := []sim.TxSpec{tr("U0", "U1", "1"), stk("U1", "V0", "1R"), setdoc("U1", "n", "u"), wdr("V0", "1"), call("W", "contract:0", "", "0"), unstk("U0", "U0", "V1", 0)}
	for _, b := range bases {
		for _, ge := range []string{"", "min-1", "min+1", "big"} {
			for _, pr := range []string{"", "p-1", "p+1", "0", "2^255"} {
				if ge != "" && pr != "" && !(ge == "min-1" && pr == "p+1") {
					continue
				}
				t := b
				t.GasExpr, t.Price = ge, pr
				t.Tag = fmt.Sprintf("%s [gas %s price %s]", b.Tag, orDef(ge, "min"), orDef(pr, "p"))
				m = append(m, t)
			}
		}
	}
	m = append(m, deploy("U0", counterInit, "0"))
	m = append(m, chk(tr("U0", "U1", "1")), chk(call("W", "contract:0", "", "0")))
	// native transactions of the types whose receiver field is free, ADDRESSED to a contract account: still native, still charged
	m = append(m, with(setdoc("U1", "n", "u"), func(s *sim.TxSpec) { s.To = "contract:0" }, "addressed to the contract"),
		with(wdr("V0", "1"), func(s *sim.TxSpec) { s.To = "contract:0" }, "addressed to the contract"),
		with(setdoc("V0", "v", "u"), func(s *sim.TxSpec) { s.To = "contract:0" }, "by the proposer, addressed to the contract"))
	// the block proposer itself takes part in a contract transaction (as sender, as value receiver, as deployer):
	// the EVM's own coinbase accounting must stay switched off, the proposer is paid once, at the end of the block
	m = append(m, deploy("V0", counterInit, "0"), call("V0", "contract:0", "", "0"), call("U1", "V0", "", "1R"), call("U1", "V1", "", "1R"), deploy("V1", counterInit, "1R"), call("V1", "contract:0", "", "1R"))
	return m
}

func orDef(s, d string) string {
	if s == "" {
		return d
	}
	return s
}

func c16History(g *sim.Genesis) sim.History {
	return sim.History{Gen: g, Blocks: append([]sim.Block{
		blk(stk("U0", "V1", "2R"), deploy("U0", counterInit, "0")),
		blk(),
		blk(prop("V0", 1, 1, 1, `{"gasPrice":"5","minTrxGas":"7"}`)),
		blk(vote("V0", 0, 0), vote("V1", 0, 0), vote("V2", 0, 0)),
	}, emptyBlocks(5)...)}
}

func init() {
	engine.Register("C16", func() engine.Check {
		fams := append(sharedFamilies(),
			family{Name: "fees/g3", Base: func() sim.History { return c16History(genesis3()) }, Menu: c16Menu(), WithEnv: true, NAppend: 3, MaxD: 2, MaxDTh: 2,
				Core: func(ss *slotSet, s slot, ch int) bool {
					if s.kind == slotProposer {
						return true
					}
					return s.kind == slotAppend && s.block >= 4 && s.block <= 7 && s.pos == 0 && ch%3 == 1
				}},
		)
		return &modelCheck{id: "C16", owners: map[string]bool{"C16": true}, balWhy: []string{"fee", "proposer"}, families: fams,
			meta: modelMeta("deviation-bounded exhaustive history exploration with reference model of admission, charging and proposer credit",
				"C16 families: six transaction types x gas limit {min-1, min, min+1, large} x price {0, p-1, p, p+1, 2^255} inserted (up to 3 per block, successful and failing mixed) into a history in which a governance proposal changes gasPrice 3->5 and minTrxGas 5->7 in mid-history (so that old- and new-priced transactions surround the switch), with the proposer of every block from {V0, V1, none}; contract call and deployment included (gas used < limit). "+
					"Oracle: admission conditions as necessary conditions (price == governance price in force, gas x price >= minimum fee); a successful native transaction costs exactly gas x price, a successful contract transaction exactly gasUsed x price with gasUsed <= limit; the proposer's balance grows by exactly the sum of the fees of the block's successful transactions (nobody's when there is no proposer); every touched balance equals the model's at every height.")}
	})
}
