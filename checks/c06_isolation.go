package checks

// C06 — block execution is isolated from CheckTx and Query traffic.  Schedule exploration at
// ABCI-call granularity: injected calls are placed into every gap between the consensus calls of a
// fixed history (preemption bound = number of injected calls); the loaded replica must answer the
// consensus calls exactly like the quiet replica.

import (
	"encoding/json"
	"fmt"
	"strings"

	"github.com/rigochain/rigo-go/ledger"

	"verif/mc/engine"
	"verif/mc/sim"
)

type inj struct {
	Gap  int `json:"gap"`  // index into the gap list of the history
	Call int `json:"call"` // index into the injection menu
}

type c06Case struct {
	Variant string `json:"variant"`
	Inj     []inj  `json:"inj"`
	Lv      int    `json:"lv"`
}

type injCall struct {
	Name    string
	Check   *sim.TxSpec // CheckTx of this template …
	Dup     bool        // … or of the consensus transaction that is delivered next (duplicate of a block tx)
	DupPrev bool        // … or of the one delivered last
	Query   string      // or a query path
	QKey    string      // wallet name / ""
}

func c06Menu() []injCall {
	t := func(s sim.TxSpec) *sim.TxSpec { return &s }
	return []injCall{
		{Name: "CheckTx(duplicate of the next block tx)", Dup: true},
		{Name: "CheckTx(duplicate of the previous block tx)", DupPrev: true},
		{Name: "CheckTx(stake U1->V1 1R)", Check: t(stk("U1", "V1", "1R"))},
		{Name: "CheckTx(stake U1->V3 1R)", Check: t(stk("U1", "V3", "1R"))},
		{Name: "CheckTx(self-stake W 9R)", Check: t(stk("W", "W", "9R"))},
		{Name: "CheckTx(unstake V2 genesis stake)", Check: t(unstk("V2", "V2", "V2", 0))},
		{Name: "CheckTx(unstake V3 self stake)", Check: t(unstk("V3", "V3", "V3", 0))},
		{Name: "CheckTx(unstake U0 delegation)", Check: t(unstk("U0", "U0", "V1", 0))},
		{Name: "CheckTx(proposal by V1)", Check: t(prop("V1", 1, 1, 1, `{"slashRatio":"60"}`))},
		{Name: "CheckTx(vote V3 choice 0)", Check: t(vote("V3", 0, 0))},
		{Name: "CheckTx(withdraw V0 1)", Check: t(wdr("V0", "1"))},
		{Name: "CheckTx(transfer U0->U1 bal-fee)", Check: t(tr("U0", "U1", "bal-fee"))},
		{Name: "CheckTx(setdoc U1)", Check: t(setdoc("U1", "mallory", "http://m"))},
		{Name: "CheckTx(contract call)", Check: t(call("W", "contract:0", "", "0"))},
		{Name: "CheckTx(bad nonce)", Check: t(with(tr("U0", "U1", "1"), func(s *sim.TxSpec) { s.NonceOff = 3 }, "nonce+3"))},
		{Name: "CheckTx(garbage bytes)"},
		{Name: "Query(account U0 @0)", Query: "account", QKey: "U0"},
		{Name: "Query(delegatee V1 @0)", Query: "delegatee", QKey: "V1"},
		{Name: "Query(stakes U0 @0)", Query: "stakes", QKey: "U0"},
		{Name: "Query(reward V0 @0)", Query: "reward", QKey: "V0"},
		{Name: "Query(proposal all @0)", Query: "proposal", QKey: ""},
		{Name: "Query(gov_params @0)", Query: "gov_params", QKey: ""},
		{Name: "Query(stakes/total_power @0)", Query: "stakes/total_power", QKey: ""},
		// withdrawals by every account that earns rewards in the history (the block that issues an account's FIRST reward included)
		{Name: "CheckTx(withdraw U0 1)", Check: t(wdr("U0", "1"))},
		{Name: "CheckTx(withdraw V1 1)", Check: t(wdr("V1", "1"))},
		{Name: "CheckTx(withdraw V3 1)", Check: t(wdr("V3", "1"))},
		{Name: "CheckTx(withdraw U1 1)", Check: t(wdr("U1", "1"))},
		{Name: "CheckTx(withdraw V0 2^255)", Check: t(wdr("V0", "2^255"))},
		// votes by snapshot voters that reach the mempool earlier than (or without) their delivery
		{Name: "CheckTx(vote V2 choice 0)", Check: t(vote("V2", 0, 0))},
		{Name: "CheckTx(vote V1 choice 0)", Check: t(vote("V1", 0, 0))},
		// every remaining query path (a read-only handler that scribbles on shared memory shows in the next EndBlock)
		{Name: "Query(stakes/voting_power @0)", Query: "stakes/voting_power", QKey: ""},
		{Name: "Query(delegatee V3 @0)", Query: "delegatee", QKey: "V3"},
		{Name: "Query(stakes V3 @0)", Query: "stakes", QKey: "V3"},
		{Name: "Query(reward U0 @0)", Query: "reward", QKey: "U0"},
	}
}

// gaps of a history: for block b: pre-begin, post-begin, post-tx(i)…, post-end, post-commit
type gapID struct {
	Block int
	Kind  string
	Idx   int
}

func historyGaps(h sim.History) []gapID {
	var g []gapID
	for b, bl := range h.Blocks {
		g = append(g, gapID{b, "pre-begin", 0}, gapID{b, "post-begin", 0})
		for i := range bl.Txs {
			g = append(g, gapID{b, "post-tx", i})
		}
		g = append(g, gapID{b, "post-end", 0}, gapID{b, "post-commit", 0})
	}
	return g
}

type c06 struct {
	tier  string
	cases []c06Case
	menu  []injCall
}

func init() { engine.Register("C06", func() engine.Check { return &c06{} }) }

func (c *c06) ID() string { return "C06" }
func (c *c06) Meta() engine.Meta {
	return engine.Meta{
		Category:  "model_checking",
		LevelName: "preemption bound P = number of injected CheckTx/Query calls",
		Technique: "schedule exploration at ABCI-call granularity (all placements of up to P injected calls into the gaps between consensus calls) on the real application, twin oracle against the quiet replica",
		Rule: "consensus thread: the dense 8-block history (staking, delegation, unstaking, proposal, votes, withdraw, transfers, contract deploy/call) in genesis variants g3 and g4L (4 equal validators, stake limiter live at 33%/33%); " +
			"mempool/query thread: 34 calls (CheckTx of: a duplicate of the next / previous block transaction, staking to two delegatees, a new self-stake, three unstakings, proposal, a vote by a validator that votes only later, votes by two snapshot voters ahead of their delivery, withdraw by every account that earns rewards (1 and 2^255), transfer of the whole balance, setdoc, contract call, bad nonce, garbage; Query of account, delegatee (2 keys), stakes (2 keys), reward (2 keys), proposal, gov_params, total power and voting power at height 0); " +
			"a schedule places the injected calls into the gaps before/after BeginBlock, after each DeliverTx, after EndBlock and after Commit (Commit itself is one ABCI call and Tendermint holds the mempool lock across it). " +
			"P<=1: every (gap, call) pair; P=2: every pair of placements drawn from the state-touching CheckTx entries (quick: within blocks 1-6, second call in the same or one of the next 3 gaps; thorough: all entries, all gaps, second call within the next 6 gaps). " +
			"Oracle: every DeliverTx / EndBlock / Commit response of the loaded replica equals the quiet replica's; the complete committed state of EVERY height (all seven ledgers read through read-only accessors - the reward ledger enters the app hash only at every 10th height) equals the quiet replica's; after every Commit the mempool overlays of all seven ledgers are empty. " +
			"distinct_nontrivial = schedules in which at least one injected CheckTx was accepted (code 0).",
		Assumptions: []string{"ABCI calls are atomic with respect to each other (one client mutex in node/client.go); verified separately by a free-running -race pass, not by this check"},
	}
}

func (c *c06) Prepare(tier string, seed int64) error {
	c.tier = tier
	c.menu = c06Menu()
	c.cases = nil
	for _, v := range []string{"g3", "g4L"} {
		h := denseHistory(genesisByName(v))
		gaps := historyGaps(h)
		for g := range gaps {
			for k := range c.menu {
				c.cases = append(c.cases, c06Case{Variant: v, Inj: []inj{{g, k}}, Lv: 1})
			}
		}
	}
	for _, v := range []string{"g4L", "g3"} {
		h := denseHistory(genesisByName(v))
		gaps := historyGaps(h)
		core := func(k int) bool {
			if tier == "thorough" {
				return true
			}
			return (k < 11 && k != 1) || k == 14
		}
		gapOK := func(g int) bool {
			if tier == "thorough" {
				return true
			}
			return gaps[g].Block <= 5 && gaps[g].Kind != "post-end"
		}
		if tier != "thorough" && v == "g3" {
			continue
		}
		for g1 := range gaps {
			if !gapOK(g1) {
				continue
			}
			for g2 := g1; g2 < len(gaps); g2++ {
				if !gapOK(g2) {
					continue
				}
				// quick: the second call lands in the same or one of the next 3 gaps
				if tier != "thorough" && g2-g1 > 3 {
					continue
				}
				// thorough: all calls, but the second call lands within the next 6 gaps (same or next block)
				if tier == "thorough" && g2-g1 > 6 {
					continue
				}
				for k1 := range c.menu {
					if !core(k1) {
						continue
					}
					for k2 := range c.menu {
						if !core(k2) {
							continue
						}
						c.cases = append(c.cases, c06Case{Variant: v, Inj: []inj{{g1, k1}, {g2, k2}}, Lv: 2})
					}
				}
			}
		}
	}
	return nil
}

func (c *c06) NumCases() int              { return len(c.cases) }
func (c *c06) Level(i int) int            { return c.cases[i].Lv }
func (c *c06) Desc(i int) json.RawMessage { return sim.MustJSON(c.cases[i]) }

func overlaysEmpty(ch *sim.Chain) string {
	a, s, g, _ := ch.App.VerifCtrlers()
	chk := func(name string, o ledger.VerifOverlay) string {
		if len(o.Got)+len(o.Updated)+len(o.Removed) > 0 {
			return fmt.Sprintf("%s: mempool overlay not empty after commit (got=%d updated=%d removed=%d)", name, len(o.Got), len(o.Updated), len(o.Removed))
		}
		return ""
	}
	if l, ok := a.VerifLedger().(*ledger.FinalityLedger[*acctT]); ok {
		_, m := l.VerifDump()
		if r := chk("accounts", m); r != "" {
			return r
		}
	}
	d, f, r := s.VerifLedgers()
	if l, ok := d.(*ledger.FinalityLedger[*delegT]); ok {
		_, m := l.VerifDump()
		if x := chk("delegatees", m); x != "" {
			return x
		}
	}
	if l, ok := f.(*ledger.FinalityLedger[*stakeT]); ok {
		_, m := l.VerifDump()
		if x := chk("frozen", m); x != "" {
			return x
		}
	}
	if l, ok := r.(*ledger.FinalityLedger[*rewardT]); ok {
		_, m := l.VerifDump()
		if x := chk("rewards", m); x != "" {
			return x
		}
	}
	p, pr, fr := g.VerifLedgers()
	if l, ok := p.(*ledger.FinalityLedger[*govT]); ok {
		_, m := l.VerifDump()
		if x := chk("gov_params", m); x != "" {
			return x
		}
	}
	if l, ok := pr.(*ledger.FinalityLedger[*propT]); ok {
		_, m := l.VerifDump()
		if x := chk("proposal", m); x != "" {
			return x
		}
	}
	if l, ok := fr.(*ledger.FinalityLedger[*propT]); ok {
		_, m := l.VerifDump()
		if x := chk("frozen_proposal", m); x != "" {
			return x
		}
	}
	return ""
}

func (c *c06) RunDesc(desc json.RawMessage) engine.Result {
	var cs c06Case
	_ = json.Unmarshal(desc, &cs)
	if c.menu == nil {
		c.menu = c06Menu()
	}
	res := engine.Result{}
	h := denseHistory(genesisByName(cs.Variant))
	ref := reference("c06/"+cs.Variant, h)
	gaps := historyGaps(h)
	at := map[gapID][]int{}
	for _, in := range cs.Inj {
		at[gaps[in.Gap]] = append(at[gaps[in.Gap]], in.Call)
	}
	accepted := 0
	overlayMsg := ""
	var names []string
	for _, in := range cs.Inj {
		g := gaps[in.Gap]
		names = append(names, fmt.Sprintf("%s at block %d %s#%d", c.menu[in.Call].Name, g.Block+1, g.Kind, g.Idx))
	}
	hk := &sim.Hooks{}
	hk.Gap = func(ch *sim.Chain, hh int64, kind string, idx int) {
		b := int(hh - 1)
		if kind == "post-commit" && overlayMsg == "" {
			overlayMsg = overlaysEmpty(ch)
		}
		for _, k := range at[gapID{b, kind, idx}] {
			ic := c.menu[k]
			switch {
			case ic.Query != "":
				var key []byte
				if ic.QKey != "" {
					key = sim.W(ic.QKey).Addr
				}
				ch.Query(ic.Query, key, 0)
			case ic.Dup || ic.DupPrev:
				// the transaction consensus delivers next (or delivered last), built the same way
				pos := idx + 1
				if kind == "pre-begin" || kind == "post-begin" {
					pos = 0
				}
				if ic.DupPrev {
					pos--
				}
				bb := b
				if kind == "post-end" || kind == "post-commit" {
					if ic.DupPrev {
						pos = len(h.Blocks[b].Txs) - 1
					} else {
						bb, pos = b+1, 0
					}
				}
				if bb < len(h.Blocks) && pos >= 0 && pos < len(h.Blocks[bb].Txs) {
					rec := ch.Check(h.Blocks[bb].Txs[pos], nil)
					if rec.Code == 0 && rec.Panic == "" {
						accepted++
					}
				}
			case ic.Check != nil:
				rec := ch.Check(*ic.Check, nil)
				if rec.Code == 0 && rec.Panic == "" {
					accepted++
				}
			default:
				ch.CheckTxRaw([]byte{0x0a, 0xff, 0x01, 0x02}, "garbage")
			}
		}
	}
	a := sim.Run(tmpRoot(), h, hk)
	defer a.Cleanup()
	if a.Err != "" && !a.Chain.Dead {
		res.Err = a.Err
		return res
	}
	for _, r := range a.Chain.Log {
		if r.Inject && r.Panic != "" {
			res.Count("injected_call_panicked(C09 matter)", 1)
		}
	}
	la := a.Chain.ConsensusLog()
	res.Transitions = len(a.Chain.Log)
	res.States = append(res.States, shortHash(strings.Join(la, "\n")))
	res.Count("injected_calls", len(cs.Inj))
	res.Count("injected_checktx_accepted", accepted)
	res.Nontrivial = accepted > 0
	res.Outcome = "equal"
	site := func() string {
		var p []string
		for _, in := range cs.Inj {
			p = append(p, fmt.Sprintf("%s@%s", c.menu[in.Call].Name, gaps[in.Gap].Kind))
		}
		return strings.Join(p, " + ")
	}
	if i, x, y := firstDiff(la, ref.Log); i >= 0 {
		res.Outcome = "diverged:" + callKind(x)
		res.Violations = append(res.Violations, engine.Violation{Property: "C06", Kind: "consensus-result-changed-by-traffic", Site: site(),
			Detail: fmt.Sprintf("injected: %v\n first differing consensus response (call #%d):\n loaded: %s\n quiet : %s", names, i, x, y), Case: desc})
		return res
	}
	// the complete committed state of every height (the reward ledger enters the app hash only at every 10th height)
	for i, st := range a.States {
		if i < len(ref.States) && st.JSON() != ref.States[i].JSON() {
			d := sim.DiffStates(st, ref.States[i])
			comp := "state"
			if len(d) > 0 {
				comp = strings.SplitN(strings.TrimPrefix(d[0], "/"), "/", 2)[0]
				comp = strings.SplitN(comp, ":", 2)[0]
			}
			res.Outcome = "state-differs"
			res.Violations = append(res.Violations, engine.Violation{Property: "C06", Kind: "committed-state-changed-by-traffic:" + comp, Site: site(),
				Detail: fmt.Sprintf("injected: %v\n state committed at height %d differs from the quiet replica's (loaded != quiet): %v", names, i+1, tailOf(d, 6)), Case: desc})
			return res
		}
	}
	res.Count("heights_state_compared", len(a.States))
	if overlayMsg != "" {
		res.Outcome = "overlay-not-empty"
		res.Violations = append(res.Violations, engine.Violation{Property: "C06", Kind: "mempool-overlay-survives-commit", Site: strings.SplitN(overlayMsg, ":", 2)[0],
			Detail: fmt.Sprintf("injected: %v\n %s", names, overlayMsg), Case: desc})
	}
	if len(cs.Inj) == 1 && cs.Inj[0].Gap == 12 {
		res.Sample = sim.MustJSON(map[string]interface{}{"variant": cs.Variant, "schedule": names, "accepted": accepted, "consensus_history": describeBlocks(h)})
	}
	return res
}

func (c *c06) Guards(a *engine.Agg, complete bool) []string {
	if a.Counters["injected_checktx_accepted"] == 0 {
		return []string{"no injected CheckTx was ever accepted"}
	}
	return nil
}
