package checks

// C20 — the file-backed validator signer never double-signs, never regresses, re-serves the original
// signature, and makes its record durable before releasing a signature — across reloads and a
// failing state write.  Exhaustive exploration of request sequences on the REAL crypto.SFilePV.

import (
	"bytes"
	"encoding/json"
	"fmt"
	"os"
	"path/filepath"
	"runtime"
	"sort"
	"strings"
	"sync/atomic"
	"time"

	"github.com/gogo/protobuf/proto"
	rcrypto "github.com/rigochain/rigo-go/types/crypto"
	"github.com/tendermint/tendermint/crypto/secp256k1"
	tmjson "github.com/tendermint/tendermint/libs/json"
	"github.com/tendermint/tendermint/libs/protoio"
	tmproto "github.com/tendermint/tendermint/proto/tendermint/types"
	tmtypes "github.com/tendermint/tendermint/types"

	"verif/mc/engine"
)

const c20Chain = "c20-chain"

func chainOf(q sreq) string {
	if q.C == 1 {
		return "c20-aux"
	}
	return c20Chain
}

var (
	c20T = []time.Time{time.Unix(1700000000, 0).UTC(), time.Unix(1700000777, 500).UTC()}
	c20B = [][]byte{bytes.Repeat([]byte{0xA1}, 32), bytes.Repeat([]byte{0xB2}, 32)}
)

// sreq is one signing request, optionally preceded by a reload and/or executed under a failing state write.
type sreq struct {
	Kind   int  `json:"kind"`        // 0 proposal(step1) 1 prevote(step2) 2 precommit(step3)
	H      int  `json:"h"`           // 1,2
	R      int  `json:"r"`           // 0,1
	B      int  `json:"b"`           // 0 = block A, 1 = block B, 2 = nil (votes only)
	T      int  `json:"t"`           // timestamp index
	C      int  `json:"c,omitempty"` // 0 = the validator's chain, 1 = a request carrying ANOTHER chain id
	Reload bool `json:"reload"`      // reload the signer from its files before the request
	Fail   bool `json:"fail"`        // the state directory is missing during the request (an atomic write fails); the process restarts iff the signer panicked
}

func (q sreq) String() string {
	k := []string{"proposal", "prevote", "precommit"}[q.Kind]
	b := []string{"A", "B", "nil"}[q.B]
	s := fmt.Sprintf("%s(h%d r%d %s t%d)", k, q.H, q.R, b, q.T)
	if q.C == 1 {
		s = "otherchain:" + s
	}
	if q.Reload {
		s = "reload;" + s
	}
	if q.Fail {
		s += "[savefail]"
	}
	return s
}

func (q sreq) step() int { return q.Kind + 1 }
func (q sreq) hrs() [3]int {
	return [3]int{q.H, q.R, q.step()}
}

func hrsLess(a, b [3]int) bool {
	for i := 0; i < 3; i++ {
		if a[i] != b[i] {
			return a[i] < b[i]
		}
	}
	return false
}

func c20Requests() []sreq {
	var rs []sreq
	for h := 1; h <= 2; h++ {
		for r := 0; r <= 1; r++ {
			for kind := 0; kind <= 2; kind++ {
				nb := 3
				if kind == 0 {
					nb = 2
				}
				for b := 0; b < nb; b++ {
					for t := 0; t < 2; t++ {
						rs = append(rs, sreq{Kind: kind, H: h, R: r, B: b, T: t})
					}
				}
			}
		}
	}
	// the same key asked to sign for ANOTHER chain id (proposal and prevote for block A): the single last-sign record is
	// chain-agnostic, such a request must obey the same height/round/step rules
	for h := 1; h <= 2; h++ {
		for r := 0; r <= 1; r++ {
			for kind := 0; kind <= 1; kind++ {
				rs = append(rs, sreq{Kind: kind, H: h, R: r, B: 0, T: 0, C: 1})
			}
		}
	}
	return rs
}

func blockID(b int) tmproto.BlockID {
	if b == 2 {
		return tmproto.BlockID{}
	}
	return tmproto.BlockID{Hash: c20B[b], PartSetHeader: tmproto.PartSetHeader{Total: 1, Hash: c20B[b]}}
}

type released struct {
	canon string // content without timestamp
	sig   string
	ts    time.Time
}

type srun struct {
	dir, keyPath, statePath, stateDir string
	pv                                *rcrypto.SFilePV
	trace                             []string
	rel                               map[[3]int][]released
	maxHRS                            [3]int
	haveMax                           bool
	last                              *released // the last freshly signed message (for the re-serve rule)
	lastHRS                           [3]int
	trans                             int
	counters                          map[string]int
}

func (r *srun) fail(kind, site, format string, a ...interface{}) *engine.Violation {
	return &engine.Violation{Property: "C20", Kind: kind, Site: site,
		Detail: fmt.Sprintf(format, a...) + "\n trace: " + strings.Join(r.trace, " ; ")}
}

var c20seq int64
var c20KeyBytes = secp256k1.GenPrivKeySecp256k1([]byte("c20 fixed validator key"))

func newSrun() (*srun, error) {
	dir := filepath.Join(tmpRoot(), fmt.Sprintf("c20-%d", atomic.AddInt64(&c20seq, 1)))
	r := &srun{dir: dir, rel: map[[3]int][]released{}, counters: map[string]int{}}
	r.stateDir = filepath.Join(dir, "data")
	if err := os.MkdirAll(r.stateDir, 0o755); err != nil {
		return nil, err
	}
	r.keyPath = filepath.Join(dir, "priv_validator_key.json")
	r.statePath = filepath.Join(r.stateDir, "priv_validator_state.json")
	pv := rcrypto.NewSFilePV(c20KeyBytes, r.keyPath, r.statePath)
	pv.SaveWith(nil)
	r.pv = pv
	return r, nil
}

func (r *srun) close() { _ = os.RemoveAll(r.dir) }

func (r *srun) reload() { r.pv = rcrypto.LoadSFilePV(r.keyPath, r.statePath, nil) }

type fileState struct {
	Height    int64  `json:"height"`
	Round     int32  `json:"round"`
	Step      int8   `json:"step"`
	Signature []byte `json:"signature,omitempty"`
	SignBytes []byte `json:"signbytes,omitempty"`
}

func (r *srun) readFile() (fileState, error) {
	var fs rcrypto.SFilePVLastSignState
	bz, err := os.ReadFile(r.statePath)
	if err != nil {
		return fileState{}, err
	}
	if err := tmjson.Unmarshal(bz, &fs); err != nil {
		return fileState{}, err
	}
	return fileState{fs.Height, fs.Round, fs.Step, fs.Signature, fs.SignBytes}, nil
}

func canonOf(signBytes []byte, kind int) string {
	if kind == 0 {
		var p tmproto.CanonicalProposal
		if err := protoio.UnmarshalDelimited(signBytes, &p); err != nil {
			return "unparsable:" + fmt.Sprintf("%x", signBytes)
		}
		p.Timestamp = time.Time{}
		b, _ := proto.Marshal(&p)
		return fmt.Sprintf("P%x", b)
	}
	var v tmproto.CanonicalVote
	if err := protoio.UnmarshalDelimited(signBytes, &v); err != nil {
		return "unparsable:" + fmt.Sprintf("%x", signBytes)
	}
	v.Timestamp = time.Time{}
	b, _ := proto.Marshal(&v)
	return fmt.Sprintf("V%x", b)
}

// do executes one request and applies the oracle.
func (r *srun) do(q sreq) (viol *engine.Violation) {
	r.trace = append(r.trace, q.String())
	r.trans++
	if q.Reload {
		r.reload()
	}
	var vote *tmproto.Vote
	var prop *tmproto.Proposal
	if q.Kind == 0 {
		prop = &tmproto.Proposal{Type: tmproto.ProposalType, Height: int64(q.H), Round: int32(q.R), PolRound: -1, BlockID: blockID(q.B), Timestamp: c20T[q.T]}
	} else {
		vt := tmproto.PrevoteType
		if q.Kind == 2 {
			vt = tmproto.PrecommitType
		}
		vote = &tmproto.Vote{Type: vt, Height: int64(q.H), Round: int32(q.R), BlockID: blockID(q.B), Timestamp: c20T[q.T],
			ValidatorAddress: c20KeyBytes.PubKey().Address(), ValidatorIndex: 0}
	}
	away := r.stateDir + ".away"
	if q.Fail {
		if err := os.Rename(r.stateDir, away); err != nil {
			return r.fail("harness", "rename", "%v", err)
		}
	}
	var err error
	var panicked interface{}
	func() {
		defer func() { panicked = recover() }()
		if prop != nil {
			err = r.pv.SignProposal(chainOf(q), prop)
		} else {
			err = r.pv.SignVote(chainOf(q), vote)
		}
	}()
	if q.Fail {
		if e := os.Rename(away, r.stateDir); e != nil {
			return r.fail("harness", "rename-back", "%v", e)
		}
	}
	var sig []byte
	var ts time.Time
	if prop != nil {
		sig, ts = prop.Signature, prop.Timestamp
	} else {
		sig, ts = vote.Signature, vote.Timestamp
	}
	site := fmt.Sprintf("%s", []string{"proposal", "prevote", "precommit"}[q.Kind])
	if panicked != nil {
		r.counters["panics"]++
		if !q.Fail {
			return r.fail("signer-panic", site, "signer panicked without an injected fault: %v", panicked)
		}
		if len(sig) > 0 {
			// the signature is in the caller's struct although the record could not be written
			viol = r.releasedCheck(q, sig, ts, site, true)
			if viol == nil {
				viol = r.fail("released-before-durable", site, "state write failed (panic: %v) but the request already carries signature %X", panicked, sig)
			}
			return viol
		}
		r.counters["savefail_nothing_released"]++
		r.reload() // the process died; restart
		return nil
	}
	// q.Fail without a panic: the request needed no write (cached answer, refusal) or the signer survived the failing
	// write. The process did NOT die, so it is not restarted: what it now holds in memory keeps answering, and a later
	// reload (its own flag) brings back whatever reached the file.
	if q.Fail {
		r.counters["savefail_process_survived"]++
	}
	if err != nil {
		r.counters["refused"]++
		if len(sig) > 0 {
			return r.fail("signature-with-error", site, "request returned error %v but carries a signature", err)
		}
		// rule: asked again for the same message (or one differing only in timestamp) it returns the original signature
		if r.last != nil && r.lastHRS == q.hrs() {
			sb := r.signBytes(q, c20T[q.T])
			if canonOf(sb, q.Kind) == r.last.canon {
				return r.fail("original-not-reserved", site, "re-request of the last signed message was refused: %v", err)
			}
		}
		return nil
	}
	if len(sig) == 0 {
		return r.fail("no-signature", site, "request succeeded but carries no signature")
	}
	r.counters["signed"]++
	return r.releasedCheck(q, sig, ts, site, false)
}

func (r *srun) signBytes(q sreq, ts time.Time) []byte {
	if q.Kind == 0 {
		p := &tmproto.Proposal{Type: tmproto.ProposalType, Height: int64(q.H), Round: int32(q.R), PolRound: -1, BlockID: blockID(q.B), Timestamp: ts}
		return tmtypes.ProposalSignBytes(chainOf(q), p)
	}
	vt := tmproto.PrevoteType
	if q.Kind == 2 {
		vt = tmproto.PrecommitType
	}
	v := &tmproto.Vote{Type: vt, Height: int64(q.H), Round: int32(q.R), BlockID: blockID(q.B), Timestamp: ts,
		ValidatorAddress: c20KeyBytes.PubKey().Address(), ValidatorIndex: 0}
	return tmtypes.VoteSignBytes(chainOf(q), v)
}

// releasedCheck applies the double-sign / regression / re-serve / validity / durability rules to a released signature.
func (r *srun) releasedCheck(q sreq, sig []byte, ts time.Time, site string, afterFailedWrite bool) *engine.Violation {
	hrs := q.hrs()
	sb := r.signBytes(q, ts)
	canon := canonOf(sb, q.Kind)
	// validity: the signature verifies for the message with the timestamp handed back
	if !c20KeyBytes.PubKey().VerifySignature(sb, sig) {
		return r.fail("invalid-signature", site, "returned signature does not verify for the returned message (timestamp %v)", ts)
	}
	// double sign: every signature ever released for this HRS covers the same content (timestamp aside)
	for _, old := range r.rel[hrs] {
		if old.canon != canon {
			return r.fail("double-sign", site, "two different messages signed at height %d round %d step %d", hrs[0], hrs[1], hrs[2])
		}
	}
	fresh := true
	for _, old := range r.rel[hrs] {
		if old.sig == string(sig) {
			fresh = false
		}
	}
	// regression: nothing is signed below the highest HRS signed so far
	if r.haveMax && hrsLess(hrs, r.maxHRS) {
		return r.fail("regression", site, "signed at h/r/s %v after having signed at %v", hrs, r.maxHRS)
	}
	// re-serve: same HRS as the last signed message -> the original signature and the original timestamp
	if r.last != nil && r.lastHRS == hrs {
		if r.last.sig != string(sig) {
			return r.fail("original-not-reserved", site, "same message requested again got a different signature than the original")
		}
		if !r.last.ts.Equal(ts) {
			return r.fail("original-not-reserved", site, "same message requested again: timestamp %v returned, original was %v", ts, r.last.ts)
		}
	}
	r.rel[hrs] = append(r.rel[hrs], released{canon, string(sig), ts})
	if !r.haveMax || hrsLess(r.maxHRS, hrs) {
		r.maxHRS, r.haveMax = hrs, true
	}
	if fresh {
		r.counters["fresh"]++
		r.last = &released{canon, string(sig), ts}
		r.lastHRS = hrs
	} else {
		r.counters["reserved"]++
	}
	if afterFailedWrite {
		return nil
	}
	// durability: the record on disk now names exactly the last freshly signed message
	fs, err := r.readFile()
	if err != nil {
		return r.fail("state-file-unreadable", site, "%v", err)
	}
	if [3]int{int(fs.Height), int(fs.Round), int(fs.Step)} != r.lastHRS || string(fs.Signature) != r.last.sig || canonOf(fs.SignBytes, r.lastHRS[2]-1) != r.last.canon {
		return r.fail("record-not-durable", site, "after releasing a signature for %v the state file holds h/r/s %d/%d/%d", r.lastHRS, fs.Height, fs.Round, fs.Step)
	}
	return nil
}

func (r *srun) stateKey() string {
	var sb strings.Builder
	m := r.pv.LastSignState
	fmt.Fprintf(&sb, "mem:%d/%d/%d/%x/%x|", m.Height, m.Round, m.Step, m.SignBytes, m.Signature)
	fs, _ := r.readFile()
	fmt.Fprintf(&sb, "file:%d/%d/%d/%x/%x|", fs.Height, fs.Round, fs.Step, fs.SignBytes, fs.Signature)
	// Oracle state. Sound abstraction: once a signature at h/r/s X has been released, any later
	// release below X is reported as a regression, so only the releases AT the current maximum can
	// still take part in a future double-sign / re-serve judgement.
	if r.haveMax {
		set := map[string]bool{}
		for _, x := range r.rel[r.maxHRS] {
			set[x.canon+"/"+x.sig+"/"+x.ts.String()] = true
		}
		var l []string
		for s := range set {
			l = append(l, s)
		}
		sort.Strings(l)
		fmt.Fprintf(&sb, "%q|", l)
	}
	if r.last != nil {
		fmt.Fprintf(&sb, "lastmsg:%s/%x/%v|", r.last.canon, r.last.sig, r.last.ts)
	}
	fmt.Fprintf(&sb, "max:%v last:%v", r.maxHRS, r.lastHRS)
	return sb.String()
}

func c20RunSeq(seq []sreq) (viol *engine.Violation, key string, trans int, counters map[string]int) {
	r, err := newSrun()
	if err != nil {
		return &engine.Violation{Property: "C20", Kind: "harness", Site: "setup", Detail: err.Error()}, "", 0, nil
	}
	defer r.close()
	defer func() {
		if p := recover(); p != nil {
			buf := make([]byte, 2048)
			n := runtime.Stack(buf, false)
			viol = r.fail("harness-panic", "c20", "%v\n%s", p, buf[:n])
		}
	}()
	for _, q := range seq {
		if v := r.do(q); v != nil {
			return v, "", r.trans, r.counters
		}
	}
	return nil, r.stateKey(), r.trans, r.counters
}

// ---- check ----

type c20Case struct {
	Mode   string `json:"mode"` // dfs | bfs | seq
	First  []sreq `json:"first,omitempty"`
	Len    int    `json:"len,omitempty"`
	Flags  string `json:"flags,omitempty"` // which step decorations the completions range over: "reload" | "all"
	Depth  int    `json:"depth,omitempty"`
	Seq    []sreq `json:"seq,omitempty"`
	Stride int    `json:"stride,omitempty"`
	Offset int    `json:"offset,omitempty"`
}

type c20 struct {
	cases []c20Case
	reqs  []sreq
}

func init() { engine.Register("C20", func() engine.Check { return &c20{} }) }

func (c *c20) ID() string { return "C20" }
func (c *c20) Meta() engine.Meta {
	return engine.Meta{
		Category:    "model_checking",
		CaseTimeout: 2 * time.Hour,
		LevelName:   "1 = unpruned DFS of request sequences (length and decoration set per tier), 2 = BFS with state de-duplication over the fully decorated alphabet",
		Technique:   "explicit-state exploration of signing-request sequences with reload / failing-write faults on the real SFilePV, invariant over the set of released signatures",
		Rule: "requests = {proposal,prevote,precommit} x height{1,2} x round{0,1} x block{A,B,nil(votes)} x timestamp{t1,t2} (64) plus 8 requests that carry ANOTHER chain id (proposal / prevote for block A at every height and round), each optionally preceded by a reload of the signer from its key+state files and/or executed while the state directory is missing (an atomic write fails: if the signer panics the panic is recovered, the request struct inspected and the process 'restarts'; if it does not, the process lives on with whatever it holds in memory). " +
			"Oracle over ALL signatures ever released: one content per height/round/step (timestamp aside), no signature below the highest h/r/s signed, same message -> original signature and timestamp, every signature verifies for the message handed back, after every fresh signature the state file names exactly that message, nothing is released when the write failed. " +
			"non-trivial = shard/BFS in which at least one request was refused or re-served.",
		Assumptions: []string{
			"durability below rename(2) (fsync ordering, power loss) is not observable in-process; a failing write is modelled by a missing state directory; a restart follows exactly when the signer panicked, because in production the panic kills the process",
			"secp256k1 signing and tendermint's canonical sign-bytes are trusted",
		},
	}
}

func (c *c20) Prepare(tier string, seed int64) error {
	c.reqs = c20Requests()
	c.cases = nil
	// BFS over the fully decorated alphabet runs to a fixpoint (depth cap 12 is never reached on the
	// unchanged tree: the reachable abstract state space closes at depth 2).
	c.cases = append(c.cases, c20Case{Mode: "bfs", Depth: 12})
	// DFS: all sequences of length 2 with every decoration
	for _, a := range c.reqs {
		c.cases = append(c.cases, c20Case{Mode: "dfs", First: []sreq{a}, Len: 2, Flags: "all"})
	}
	if tier == "thorough" {
		// DFS: all sequences of length 3 with reload decorations; shards by first request
		for _, a := range c.reqs {
			c.cases = append(c.cases, c20Case{Mode: "dfs", First: []sreq{a}, Len: 3, Flags: "reload"})
		}
	}
	return nil
}

func (c *c20) NumCases() int { return len(c.cases) }
func (c *c20) Level(i int) int {
	if c.cases[i].Mode == "bfs" {
		return 2
	}
	return 1
}
func (c *c20) Desc(i int) json.RawMessage { b, _ := json.Marshal(c.cases[i]); return b }

func decorate(q sreq, flags string) []sreq {
	out := []sreq{q}
	q2 := q
	q2.Reload = true
	out = append(out, q2)
	if flags == "all" {
		q3 := q
		q3.Fail = true
		q4 := q2
		q4.Fail = true
		out = append(out, q3, q4)
	}
	return out
}

func (c *c20) RunDesc(desc json.RawMessage) engine.Result {
	var cs c20Case
	_ = json.Unmarshal(desc, &cs)
	if c.reqs == nil {
		c.reqs = c20Requests()
	}
	res := engine.Result{}
	states := map[string]struct{}{}
	addViol := func(v *engine.Violation, seq []sreq) {
		if v == nil {
			return
		}
		for _, old := range res.Violations {
			if old.Fingerprint() == v.Fingerprint() {
				return
			}
		}
		cc, _ := json.Marshal(c20Case{Mode: "seq", Seq: seq})
		v.Case = cc
		res.Violations = append(res.Violations, *v)
	}
	merge := func(ct map[string]int) {
		for k, v := range ct {
			res.Count(k, v)
		}
	}
	switch cs.Mode {
	case "seq":
		v, key, tr, ct := c20RunSeq(cs.Seq)
		res.Transitions = tr
		merge(ct)
		states[key] = struct{}{}
		addViol(v, cs.Seq)
		res.Count("sequences", 1)
	case "dfs":
		var rec func(seq []sreq)
		rec = func(seq []sreq) {
			if len(seq) == cs.Len {
				v, key, tr, ct := c20RunSeq(seq)
				res.Transitions += tr
				merge(ct)
				states[key] = struct{}{}
				res.Count("sequences", 1)
				addViol(v, seq)
				return
			}
			for _, q := range c.reqs {
				for _, d := range decorate(q, cs.Flags) {
					rec(append(append([]sreq{}, seq...), d))
				}
			}
		}
		// the first request(s) are also decorated
		var firsts [][]sreq
		firsts = append(firsts, nil)
		for _, f := range cs.First {
			var nf [][]sreq
			for _, pre := range firsts {
				for _, d := range decorate(f, cs.Flags) {
					nf = append(nf, append(append([]sreq{}, pre...), d))
				}
			}
			firsts = nf
		}
		for _, f := range firsts {
			rec(f)
		}
		res.Nontrivial = res.Counters["refused"] > 0 || res.Counters["reserved"] > 0
		res.Outcome = fmt.Sprintf("dfs-len%d-%s", cs.Len, cs.Flags)
		smp, _ := json.Marshal(map[string]interface{}{"mode": "dfs", "first": fmt.Sprint(cs.First), "len": cs.Len, "decorations": cs.Flags})
		res.Sample = smp
	case "bfs":
		seen := map[string]struct{}{}
		_, k0, _, _ := c20RunSeq(nil)
		seen[k0] = struct{}{}
		frontier := [][]sreq{nil}
		var deepest []sreq
		for d := 1; d <= cs.Depth && len(frontier) > 0; d++ {
			var next [][]sreq
			for _, path := range frontier {
				for _, q := range c.reqs {
					for _, dq := range decorate(q, "all") {
						seq := append(append([]sreq{}, path...), dq)
						v, key, tr, ct := c20RunSeq(seq)
						res.Transitions += tr
						merge(ct)
						res.Count("sequences", 1)
						res.Count("bfs_transitions", 1)
						if v != nil {
							addViol(v, seq)
							continue
						}
						if _, ok := seen[key]; !ok {
							seen[key] = struct{}{}
							next = append(next, seq)
							deepest = seq
						}
					}
				}
			}
			res.Count(fmt.Sprintf("bfs_new_states_depth_%d", d), len(next))
			frontier = next
		}
		for k := range seen {
			states[k] = struct{}{}
		}
		res.Count("bfs_states", len(seen))
		res.Nontrivial = true
		res.Outcome = "bfs"
		smp, _ := json.Marshal(map[string]interface{}{"mode": "bfs", "depth": cs.Depth, "a_deepest_new_state_path": fmt.Sprint(deepest)})
		res.Sample = smp
	}
	for k := range states {
		if k != "" {
			res.States = append(res.States, shortHash(k))
		}
	}
	return res
}

func (c *c20) Guards(a *engine.Agg, complete bool) []string {
	var g []string
	for _, k := range []string{"signed", "refused", "reserved", "fresh", "savefail_nothing_released"} {
		if a.Counters[k] == 0 {
			g = append(g, "never observed: "+k)
		}
	}
	return g
}
