package checks

// Generic machinery of the model-based checks (C02, C04, C10–C16): a check = a list of scenario
// families (genesis, base history, deviation menu, bounds) + the set of finding owners it reports.

import (
	"encoding/json"
	"fmt"
	"math/big"
	"os"
	"strings"

	"verif/mc/engine"
	"verif/mc/refmodel"
	"verif/mc/sim"
)

type family struct {
	Name    string
	Base    func() sim.History
	Menu    []sim.TxSpec
	WithEnv bool
	NAppend int
	TxSlots bool
	MaxD    int // quick
	MaxDTh  int // thorough
	// Core restricts which (slot, choice) take part at D >= 2 in the quick tier (nil = all).
	Core func(ss *slotSet, s slot, choice int) bool
	// Restarts: additionally run every history with one restart after each of these heights (0 = none)
	Restarts []int64
	// OnlyBlocks: deviation slots exist only in these blocks (0-based) - for long histories whose interesting part is short
	OnlyBlocks []int
	// SumOnly: the family contains contracts that forward value, which the simple (non-EVM) model does not follow:
	// only model-independent invariants (conservation of the total, no wrap-around) are judged, per-account findings are dropped.
	SumOnly bool
}

type mcase struct {
	// EVMProg: (C02 only) a C17 gadget program run in C17's family EVMFam, judged by the total-value invariant
	EVMProg []int `json:"evmProg,omitempty"`
	EVMFam  int   `json:"evmFam,omitempty"`
	Fam     int   `json:"fam"`
	Devs    []dev `json:"devs"`
	Restart int64 `json:"restart,omitempty"`
	Lv      int   `json:"lv"`
}

type modelCheck struct {
	id       string
	owners   map[string]bool // finding.Prop values this check reports
	balWhy   []string        // report BAL findings whose reasons contain one of these ("*" = all)
	families []family
	meta     engine.Meta
	extra    func(mc *modelCheck, mr *modelRun, h sim.History, res *engine.Result) []refmodel.Finding
	guards   func(a *engine.Agg) []string
	evmSum   bool // add the EVM total-value cases (C02)
	nShared  int  // the first nShared families are the shared ones (no default restarts)

	tier  string
	cases []mcase
	slots []*slotSet
	bases []sim.History
}

func (c *modelCheck) ID() string        { return c.id }
func (c *modelCheck) Meta() engine.Meta { return c.meta }

func (c *modelCheck) build() {
	c.nShared = len(sharedFamilies())
	c.slots = nil
	c.bases = nil
	for _, f := range c.families {
		h := f.Base()
		n := f.NAppend
		if n == 0 {
			n = 1
		}
		c.bases = append(c.bases, h)
		ss := historySlotsN(h, f.Menu, f.WithEnv, n, f.TxSlots)
		if f.OnlyBlocks != nil {
			keep := map[int]bool{}
			for _, b := range f.OnlyBlocks {
				keep[b] = true
			}
			var sl []slot
			for _, x := range ss.slots {
				if keep[x.block] {
					sl = append(sl, x)
				}
			}
			ss.slots = sl
		}
		c.slots = append(c.slots, ss)
	}
}

func (c *modelCheck) Prepare(tier string, seed int64) error {
	c.tier = tier
	c.build()
	c.cases = nil
	for fi, f := range c.families {
		if only := os.Getenv("VERIF_ONLY_FAMILY"); only != "" && !strings.Contains(f.Name, only) { // development aid
			continue
		}
		ss := c.slots[fi]
		coreP := func(s, ch int) bool { return f.Core == nil || f.Core(ss, ss.slots[s], ch) }
		var sets [][]dev
		var lv []int
		if tier != "thorough" {
			var core func(s, ch int) bool
			if f.Core != nil {
				core = coreP
			}
			sets, lv = enumDevs(ss.sizes(), f.MaxD, 2, core)
		} else {
			maxD := f.MaxD
			if f.MaxDTh > 0 {
				maxD = f.MaxDTh
			}
			d2 := maxD
			if d2 > 2 {
				d2 = 2
			}
			// levels <= 2 over the FULL menu unless that exceeds the budget a thorough run can finish
			sets, lv = enumDevs(ss.sizes(), d2, 2, nil)
			if len(sets) > 250000 {
				sets, lv = enumDevs(ss.sizes(), d2, 2, coreP)
			}
			if maxD >= 3 {
				// level 3 over the core sub-menu only (every position restricted)
				s3, l3 := enumDevs(ss.sizes(), 3, 1, coreP)
				n3 := 0
				for i := range s3 {
					if l3[i] == 3 && n3 < 300000 {
						sets = append(sets, s3[i])
						lv = append(lv, 3)
						n3++
					}
				}
			}
		}
		for i := range sets {
			c.cases = append(c.cases, mcase{Fam: fi, Devs: sets[i], Lv: lv[i]})
			restarts := f.Restarts
			if restarts == nil && fi >= c.nShared {
				// every property-specific family is also run with one restart (copy of the data directory, new application)
				// at three boundaries: rules that read in-memory state must give the same results after a restart
				restarts = []int64{3, 5, 7}
			}
			if f.Restarts == nil && tier != "thorough" && len(restarts) > 0 {
				// quick: one of the three boundaries per history, rotating (thorough: all three)
				restarts = restarts[i%len(restarts) : i%len(restarts)+1]
			}
			for _, r := range restarts {
				if lv[i] <= 1 {
					c.cases = append(c.cases, mcase{Fam: fi, Devs: sets[i], Restart: r, Lv: lv[i]})
				}
			}
		}
	}
	if c.evmSum {
		gs := c17Gadgets()
		for a := range gs {
			for fam := 0; fam < 3; fam++ {
				c.cases = append(c.cases, mcase{EVMProg: []int{a}, EVMFam: fam, Fam: -1, Lv: 1})
			}
			if !gs[a].Term {
				for b := range gs {
					c.cases = append(c.cases, mcase{EVMProg: []int{a, b}, EVMFam: (a + b) % 3, Fam: -1, Lv: 2})
				}
			}
		}
	}
	var out []mcase
	for lv := 0; lv <= 4; lv++ {
		for _, x := range c.cases {
			if x.Lv == lv {
				out = append(out, x)
			}
		}
	}
	c.cases = out
	return nil
}

func (c *modelCheck) NumCases() int              { return len(c.cases) }
func (c *modelCheck) Level(i int) int            { return c.cases[i].Lv }
func (c *modelCheck) Desc(i int) json.RawMessage { return sim.MustJSON(c.cases[i]) }

func (c *modelCheck) wants(f refmodel.Finding) bool {
	if c.owners[f.Prop] {
		return true
	}
	if f.Prop == "BAL" {
		for _, w := range c.balWhy {
			if w == "*" || strings.Contains(","+f.Reasons+",", ","+w+",") {
				return true
			}
		}
	}
	return false
}

func (c *modelCheck) RunDesc(desc json.RawMessage) engine.Result {
	var cs mcase
	_ = json.Unmarshal(desc, &cs)
	if c.slots == nil {
		c.build()
	}
	if cs.Fam < 0 {
		return c.runEVMSum(cs, desc)
	}
	res := engine.Result{}
	ss := c.slots[cs.Fam]
	h := ss.apply(c.bases[cs.Fam], cs.Devs)
	descr := ss.describe(cs.Devs)
	var mo *modelOpts
	if cs.Restart > 0 {
		mo = &modelOpts{RestartAfter: map[int64]bool{cs.Restart: true}}
	}
	mr := runWithModel(h, mo)
	defer mr.Res.Cleanup()
	if mr.Res.Err != "" && (mr.Res.Chain == nil || !mr.Res.Chain.Dead) {
		res.Err = mr.Res.Err
		return res
	}
	res.Transitions = len(mr.Res.Chain.Log)
	for _, st := range mr.Res.States {
		res.States = append(res.States, st.Hash())
	}
	res.Count("tx_ok", mr.TxOK)
	res.Count("tx_failed", mr.TxFail)
	for k, v := range mr.Kinds {
		res.Count("ok:"+k, v)
	}
	if mr.Res.Chain.Dead {
		res.Count("histories_ending_in_a_consensus_panic(C09 matter)", 1)
	}
	findings := mr.Findings
	if c.extra != nil {
		findings = append(findings, c.extra(c, mr, h, &res)...)
	}
	foreign := 0
	for _, f := range findings {
		if c.families[cs.Fam].SumOnly && f.Kind != "value-not-conserved" && f.Kind != "balance-wrapped" {
			res.Count("per-account_findings_dropped_in_sum-only_family", 1)
			continue
		}
		if !c.wants(f) {
			foreign++
			res.Count("findings_owned_by_other_properties:"+f.Prop, 1)
			continue
		}
		v := engine.Violation{Property: c.id, Kind: f.Kind, Site: f.Site,
			Detail: fmt.Sprintf("%s\n family %s, deviations %v, restart after %d\n history: %v", f.Detail, c.families[cs.Fam].Name, descr, cs.Restart, describeBlocks(h)), Case: desc}
		dup := false
		for _, o := range res.Violations {
			if o.Fingerprint() == v.Fingerprint() {
				dup = true
			}
		}
		if !dup {
			res.Violations = append(res.Violations, v)
		}
	}
	res.Nontrivial = mr.TxOK > 0 && mr.TxFail > 0
	res.Outcome = shortHash(strings.Join(mr.Res.Chain.ConsensusLog(), "\n"))
	if len(cs.Devs) == 1 && cs.Devs[0].Slot%11 == 3 && cs.Devs[0].Choice == 2 {
		res.Sample = sim.MustJSON(map[string]interface{}{"family": c.families[cs.Fam].Name, "deviations": descr, "tx_ok": mr.TxOK, "tx_failed": mr.TxFail, "blocks": len(h.Blocks), "history": describeBlocks(h), "consensus_log_tail": tailOf(mr.Res.Chain.ConsensusLog(), 6)})
	}
	return res
}

func (c *modelCheck) Guards(a *engine.Agg, complete bool) []string {
	var g []string
	if a.Counters["tx_ok"] == 0 || a.Counters["tx_failed"] == 0 {
		g = append(g, "no successful or no failed transaction")
	}
	if c.guards != nil {
		g = append(g, c.guards(a)...)
	}
	return g
}

// ---- shared families ----

func sharedFamilies() []family {
	mk := func(name string, base func() sim.History) family {
		return family{Name: name, Base: base, Menu: txMenu(), WithEnv: true, NAppend: 1, TxSlots: true, MaxD: 1, MaxDTh: 1}
	}
	return []family{
		mk("dense/g3", func() sim.History { return denseHistory(genesis3()) }),
		mk("dense/g4L", func() sim.History { return denseHistory(genesis4L()) }),
		mk("small-stake/g3s", func() sim.History { return smallStakeHistory(genesis3s()) }),
		mk("dense/g1", func() sim.History { return denseHistory(genesis1()) }),
	}
}

func modelMeta(technique, rule string, extraAssume ...string) engine.Meta {
	return engine.Meta{
		Category:  "model_checking",
		LevelName: "number of deviations from the family's default history",
		Technique: technique,
		Rule: rule + " Every history is executed on the real application in lock step with the result-conditioned reference model (mc/refmodel): a failed transaction does not move the model, a successful one has the property's necessary conditions asserted and its exact effect applied; block rules are computed by the model; after EVERY commit the complete committed state (all accounts, delegatees+stakes, unbonding stakes, rewards, proposals+votes, parameters) is compared and every mismatch is attributed to the property owning the component. " +
			"Every property-specific family is additionally executed with one restart of the node after height 3, 5 or 7 (deviation level <= 1; quick: one of the three boundaries per history, rotating; thorough: each of them). All checks also run the shared families (dense history in 3 genesis variants + the small-stake/evidence/jailing history, every single deviation from a 24-template menu at every position, per-block absent-signer / evidence / proposer variations). distinct_nontrivial = histories with at least one successful and one failed transaction.",
		Assumptions: append([]string{
			"the model does not predict acceptance beyond the necessary conditions the properties state (no re-implementation of the stake limiter or the EVM gas schedule)",
			"the validator set last reported is taken over from the implementation after C10's oracle has judged it (tie-breaks at the cut are open)",
			"trace validation: every explored execution IS an implementation run compared step by step with the model",
		}, extraAssume...),
	}
}

func bigStr(s string) *big.Int { b, _ := new(big.Int).SetString(s, 10); return b }

func tailOf(l []string, n int) []string {
	if len(l) > n {
		return l[len(l)-n:]
	}
	return l
}

// runEVMSum: a contract program (C17's alphabet and history families, incl. value-forwarding calls, nested reverts,
// CREATE, SELFDESTRUCT) judged by the total-value invariant only: at every height the implementation's
// balances + bonded + unbonding equal the reference's (native model + reference EVM world, which accounts burns by
// EVM definition such as a self-destruct into itself).
func (c *modelCheck) runEVMSum(cs mcase, desc json.RawMessage) engine.Result {
	res, _, _, names, mr := c17Run(c17Case{Prog: cs.EVMProg, Family: cs.EVMFam})
	if mr != nil && mr.Res != nil {
		defer mr.Res.Cleanup()
	}
	if res.Err != "" {
		return res
	}
	res.Violations = nil
	for i := range mr.Totals {
		if i < len(mr.ModelTotals) && mr.Totals[i].Cmp(mr.ModelTotals[i]) != 0 {
			res.Violations = append(res.Violations, engine.Violation{Property: c.id, Kind: "value-not-conserved", Site: "evm-program-sum",
				Detail: fmt.Sprintf("height %d: balances+bonded+unbonding of the node = %s, of the reference (native model + reference EVM) = %s (difference %s)\n program [%s] in EVM family %d",
					i+1, mr.Totals[i], mr.ModelTotals[i], new(big.Int).Sub(mr.Totals[i], mr.ModelTotals[i]), strings.Join(names, " ; "), cs.EVMFam), Case: desc})
			break
		}
	}
	res.Count("evm_sum_cases", 1)
	res.Nontrivial = mr.TxOK > 0 && mr.TxFail > 0
	return res
}
