package checks

// C19 — queries return the state committed at the requested height, read-only.
// For every history of a family: every query path x key of the universe x height 0..latest+1 is
// asked at EVERY moment (between blocks, after BeginBlock, after each DeliverTx, after EndBlock,
// after later blocks, after a restart).

import (
	"encoding/json"
	"fmt"
	"sort"
	"strings"

	"verif/mc/engine"
	"verif/mc/sim"
)

type c19Case struct {
	Variant string `json:"variant"`
	Devs    []dev  `json:"devs"`
	Restart int64  `json:"restart"`
	Lv      int    `json:"lv"`
}

type c19 struct {
	tier  string
	cases []c19Case
	slots map[string]*slotSet
	base  map[string]sim.History
}

func init() { engine.Register("C19", func() engine.Check { return &c19{} }) }

func (c *c19) ID() string { return "C19" }
func (c *c19) Meta() engine.Meta {
	return engine.Meta{
		Category:  "model_checking",
		LevelName: "number of deviations of the history from the default",
		Technique: "exhaustive (path x key x height x moment) query enumeration over deviation-bounded histories on the real application: immutability, agreement with the committed state dump, twin oracle for read-onlyness",
		Rule: "histories: dense history (g3, g4L), small-stake/evidence history, a history with delegatees whose own stake is below the validator minimum and a validator that delegates to another validator (g3bm), each with every single appended deviation from a stake/governance menu, and with one restart at several boundaries. " +
			"At every gap between consensus calls (before/after BeginBlock, after each DeliverTx, after EndBlock, after Commit) the node first serves 12 CheckTx requests (withdrawals, transfer, staking, setdoc, unstaking, votes, proposal: pending mempool checks that write into the mempool views of five ledgers), then EVERY query of the universe is asked: paths account / delegatee / stakes / stakes/total_power / reward / proposal / gov_params x keys {U0,U1,W,V0,V1,V2,V3,X, every proposal hash, none} x heights {0, 1..latest, latest+1}. " +
			"Oracle: (1) the answer returned for (path,key,h) (bytes, after JSON key-order canonicalisation) never changes once h is committed - also in the middle of later blocks, after later blocks and after a restart; (2) the first answer agrees with the complete state dump taken at height h (account nonce/balance/name, delegatee powers and stakes, an owner's stakes, total power, withdrawable reward, proposal status, parameters); (3) height 0 == latest; (4) a height beyond the latest is an error; (5) the replica that served all these mempool checks and queries returns the same consensus responses as a replica that served none. " +
			"evaluations = histories; counters.queries = individual queries. distinct_nontrivial = histories in which at least one historical answer differs from the latest answer for the same key (the history really changed what is queried).",
		Assumptions: []string{
			"stakes/voting_power evaluates historical trees with the CURRENT parameters and is not in the statement's list; it is compared only for immutability in histories without parameter changes, i.e. not at all here",
			"the state dump at height h (read-only accessors) is validated against the reference model by C02/C04/C10-C16",
		},
	}
}

func (c *c19) build() {
	c.slots = map[string]*slotSet{}
	c.base = map[string]sim.History{}
	for _, v := range []string{"g3", "g4L"} {
		h := denseHistory(genesisByName(v))
		c.base[v] = h
		c.slots[v] = historySlots(h, c07Menu(), false)
	}
	c.base["g3s"] = smallStakeHistory(genesis3s())
	c.slots["g3s"] = historySlots(c.base["g3s"], c07Menu(), false)
	c.base["g3bm"] = belowMinimumHistory(genesis3())
	c.slots["g3bm"] = historySlots(c.base["g3bm"], c07Menu(), false)
}

func (c *c19) Prepare(tier string, seed int64) error {
	c.tier = tier
	c.build()
	c.cases = nil
	for _, v := range []string{"g3", "g3s", "g4L", "g3bm"} {
		for _, r := range []int64{0, 1, 2, 3, 4, 5, 6, 7} {
			c.cases = append(c.cases, c19Case{Variant: v, Restart: r, Lv: 0})
		}
	}
	for _, v := range []string{"g3", "g4L", "g3s", "g3bm"} {
		ss := c.slots[v]
		core := func(s, ch int) bool {
			if tier == "thorough" {
				return ss.slots[s].kind == slotAppend || (ss.slots[s].kind == slotTx && ch == 1)
			}
			return ss.slots[s].kind == slotAppend
		}
		maxD := 1
		if tier == "thorough" {
			maxD = 2
		}
		sets, _ := enumDevs(ss.sizes(), maxD, 1, core)
		for _, d := range sets {
			if len(d) > 0 {
				c.cases = append(c.cases, c19Case{Variant: v, Devs: d, Lv: len(d)})
			}
		}
	}
	return nil
}

func (c *c19) NumCases() int              { return len(c.cases) }
func (c *c19) Level(i int) int            { return c.cases[i].Lv }
func (c *c19) Desc(i int) json.RawMessage { return sim.MustJSON(c.cases[i]) }

var c19Paths = []string{"account", "delegatee", "stakes", "stakes/total_power", "reward", "proposal", "gov_params"}
var c19Keys = []string{"U0", "U1", "W", "V0", "V1", "V2", "V3", "X"}

func (c *c19) RunDesc(desc json.RawMessage) engine.Result {
	var cs c19Case
	_ = json.Unmarshal(desc, &cs)
	if c.slots == nil {
		c.build()
	}
	ss := c.slots[cs.Variant]
	h := ss.apply(c.base[cs.Variant], cs.Devs)
	descr := ss.describe(cs.Devs)
	res := engine.Result{}
	ref := reference(fmt.Sprintf("c19/%s/%v", cs.Variant, cs.Devs), h)

	first := map[string]string{}   // (path|key|h) -> first answer
	firstAt := map[string]string{} // where it was first asked
	nq := 0
	changed := false
	var viols []engine.Violation
	addV := func(kind, site, f string, a ...interface{}) {
		for _, o := range viols {
			if o.Kind == kind && o.Site == site {
				return
			}
		}
		viols = append(viols, engine.Violation{Property: "C19", Kind: kind, Site: site, Detail: fmt.Sprintf(f, a...) + fmt.Sprintf("\n history %s deviations %v restart after %d", cs.Variant, descr, cs.Restart), Case: desc})
	}
	var states []*sim.State
	ask := func(ch *sim.Chain, moment string) {
		latest := ch.Height
		type qk struct {
			path string
			key  []byte
			name string
		}
		var qs []qk
		for _, p := range c19Paths {
			switch p {
			case "stakes/total_power", "gov_params":
				qs = append(qs, qk{p, nil, "-"})
			case "proposal":
				qs = append(qs, qk{p, nil, "all"})
				for i, ph := range ch.Props {
					qs = append(qs, qk{p, ph, fmt.Sprintf("prop#%d", i)})
				}
			default:
				for _, k := range c19Keys {
					qs = append(qs, qk{p, sim.W(k).Addr, k})
				}
			}
		}
		for _, q := range qs {
			var at0 string
			for hq := int64(0); hq <= latest+1; hq++ {
				if latest == 0 {
					continue
				}
				rec, resp := ch.Query(q.path, q.key, hq)
				nq++
				ans := fmt.Sprintf("code=%d value=%s", resp.Code, canonJSON(resp.Value))
				if rec.Panic != "" {
					addV("query-panicked", q.path, "query %s/%s@%d at %s panicked: %s", q.path, q.name, hq, moment, rec.Panic)
					continue
				}
				if hq == 0 {
					at0 = ans
					continue
				}
				if hq == latest+1 {
					if resp.Code == 0 {
						addV("future-height-answered", q.path, "query %s/%s at height %d (latest is %d) at %s succeeded: %s", q.path, q.name, hq, latest, moment, ans)
					}
					continue
				}
				k := fmt.Sprintf("%s|%s|%d", q.path, q.name, hq)
				if old, ok := first[k]; ok {
					if old != ans {
						addV("historical-answer-changed", q.path, "query %s/%s@%d answered %q at %s, but %q at %s", q.path, q.name, hq, trunc(ans), moment, trunc(old), firstAt[k])
					}
				} else {
					first[k] = ans
					firstAt[k] = moment
					// agreement with the state dump of that height
					if int(hq) <= len(states) {
						if msg := agreeWithState(q.path, q.name, q.key, resp.Code, resp.Value, states[hq-1]); msg != "" {
							addV("answer-differs-from-committed-state", q.path, "query %s/%s@%d (asked at %s) = %s; state committed at %d: %s", q.path, q.name, hq, moment, trunc(ans), hq, msg)
						}
					}
					if prev, ok := first[fmt.Sprintf("%s|%s|%d", q.path, q.name, hq-1)]; ok && prev != ans {
						changed = true
					}
				}
				if hq == latest && at0 != ans {
					addV("height-0-is-not-latest", q.path, "query %s/%s at height 0 = %q, at latest height %d = %q (asked at %s)", q.path, q.name, trunc(at0), latest, trunc(ans), moment)
				}
			}
		}
	}
	hk := &sim.Hooks{}
	if cs.Restart > 0 {
		hk.RestartAfter = map[int64]bool{cs.Restart: true}
	}
	var run *sim.RunResult
	// pending mempool checks: before the queries of every gap the node serves CheckTx requests that write into the
	// mempool views of the account, delegatee, unbonding, reward and proposal ledgers
	pending := []sim.TxSpec{wdr("V0", "1"), wdr("V1", "1"), wdr("U0", "1"), tr("U0", "U1", "1R"), stk("U1", "V1", "1R"), stk("W", "W", "3R"), setdoc("U1", "mm", "http://m"),
		unstk("U0", "U0", "V1", 0), unstk("V2", "V2", "V2", 0), vote("V1", 0, 1), vote("V2", 0, 0), prop("V1", 1, 1, 1, `{"slashRatio":"60"}`)}
	npend, npendOK := 0, 0
	hk.Gap = func(ch *sim.Chain, hh int64, kind string, idx int) {
		if kind == "post-commit" {
			states = run.States
		}
		if hh >= 2 {
			for _, t := range pending {
				rec := ch.Check(t, nil)
				npend++
				if rec.Code == 0 && rec.Panic == "" {
					npendOK++
				}
			}
		}
		ask(ch, fmt.Sprintf("block %d %s#%d", hh, kind, idx))
	}
	run = &sim.RunResult{}
	dir := sim.NewDir(tmpRoot(), "c19")
	run.Dirs = append(run.Dirs, dir)
	ch, err := sim.NewChain(dir, h.Gen)
	if err != nil {
		res.Err = err.Error()
		return res
	}
	run.Chain = ch
	ch.Start()
	sim.RunBlocks(tmpRoot(), run, h.Blocks, hk)
	defer run.Cleanup()
	if run.Err != "" && !run.Chain.Dead {
		res.Err = run.Err
		return res
	}
	// after the restart (RunBlocks reopened): ask everything once more at the end
	ask(run.Chain, "end of history")
	la := run.Chain.ConsensusLog()
	if i, x, y := firstDiff(la, ref.Log); i >= 0 {
		addV("serving-queries-changed-consensus", callKind(x), "the replica that served the queries differs from the quiet one at consensus call #%d:\n queried: %s\n quiet: %s", i, x, y)
	}
	res.Violations = viols
	res.Transitions = nq
	res.Count("queries", nq)
	res.Count("pending_mempool_checks", npend)
	res.Count("pending_mempool_checks_accepted", npendOK)
	res.Count("distinct_historical_answers", len(first))
	res.Nontrivial = changed
	res.Outcome = shortHash(strings.Join(la, "\n"))
	var ks []string
	for k := range first {
		ks = append(ks, k)
	}
	sort.Strings(ks)
	res.States = append(res.States, shortHash(strings.Join(ks, ",")+fmt.Sprint(len(first))))
	for _, st := range run.States {
		res.States = append(res.States, st.Hash())
	}
	if len(cs.Devs) == 0 && cs.Restart == 3 {
		res.Sample = sim.MustJSON(map[string]interface{}{"variant": cs.Variant, "restart_after": cs.Restart, "queries": nq, "distinct_(path,key,height)": len(first), "example": ks[len(ks)/2] + " -> " + trunc(first[ks[len(ks)/2]])})
	}
	return res
}

// canonJSON: the application marshals map-typed fields (a proposal's voters) with tendermint's JSON
// encoder, which walks Go maps in random order; JSON objects are unordered, so answers are compared
// after re-marshalling with sorted keys (an order difference is not a different answer).
func canonJSON(b []byte) string {
	var v interface{}
	if len(b) == 0 || json.Unmarshal(b, &v) != nil {
		return string(b)
	}
	out, err := json.Marshal(v)
	if err != nil {
		return string(b)
	}
	return string(out)
}

func trunc(s string) string {
	if len(s) > 220 {
		return s[:220] + "…"
	}
	return s
}

// agreeWithState compares one query answer semantically with the state dump of the same height.
func agreeWithState(path, name string, key []byte, code uint32, val []byte, st *sim.State) string {
	a := hexU(key)
	switch path {
	case "account":
		acc, ok := st.Accounts[a]
		if code != 0 {
			return "" // the account query materialises nothing for unknown accounts; an error is acceptable only if unknown
		}
		var q struct {
			Nonce   string `json:"nonce"`
			Balance string `json:"balance"`
			Name    string `json:"name"`
			DocURL  string `json:"docURL"`
		}
		if json.Unmarshal(val, &q) != nil {
			return "unparsable answer"
		}
		if !ok {
			if q.Balance != "0" || (q.Nonce != "0" && q.Nonce != "") {
				return "account is not in the committed state but the query reports a balance/nonce"
			}
			return ""
		}
		if q.Balance != acc.Balance || q.Nonce != fmt.Sprint(acc.Nonce) || q.Name != acc.Name || q.DocURL != acc.Doc {
			return fmt.Sprintf("state has nonce %d balance %s name %q doc %q", acc.Nonce, acc.Balance, acc.Name, acc.Doc)
		}
	case "delegatee":
		d, ok := st.Delegatees[a]
		if code != 0 {
			if ok {
				return "delegatee exists in the committed state but the query fails"
			}
			return ""
		}
		if !ok {
			return "delegatee is not in the committed state but the query succeeds"
		}
		var q struct {
			SelfPower  string `json:"selfPower"`
			TotalPower string `json:"totalPower"`
			Stakes     []struct {
				TxHash string `json:"txhash"`
				Power  string `json:"power"`
			} `json:"stakes"`
		}
		if json.Unmarshal(val, &q) != nil {
			return "unparsable answer"
		}
		if q.SelfPower != fmt.Sprint(d.Self) || q.TotalPower != fmt.Sprint(d.Total) || len(q.Stakes) != len(d.Stakes) {
			return fmt.Sprintf("state has self/total %d/%d and %d stakes", d.Self, d.Total, len(d.Stakes))
		}
		for i, s := range d.Stakes {
			if !strings.EqualFold(q.Stakes[i].TxHash, s.TxHash) || q.Stakes[i].Power != fmt.Sprint(s.Power) {
				return fmt.Sprintf("stake #%d: state has %s power %d", i, s.TxHash, s.Power)
			}
		}
	case "stakes":
		if code != 0 {
			return "stakes query failed"
		}
		var q []struct {
			TxHash string `json:"txhash"`
			Power  string `json:"power"`
		}
		if string(val) != "null" && json.Unmarshal(val, &q) != nil {
			return "unparsable answer"
		}
		want := map[string]string{}
		for _, d := range st.Delegatees {
			for _, s := range d.Stakes {
				if s.Owner == a {
					want[strings.ToUpper(s.TxHash)+"/"+s.To] = fmt.Sprint(s.Power)
				}
			}
		}
		if len(q) != len(want) {
			return fmt.Sprintf("state has %d stakes owned by %s, the query lists %d", len(want), name, len(q))
		}
		for _, x := range q {
			found := false
			for k, pw := range want {
				if strings.HasPrefix(k, strings.ToUpper(x.TxHash)+"/") && pw == x.Power {
					found = true
				}
			}
			if !found {
				return fmt.Sprintf("the query lists stake %s power %s, which %s does not own in the committed state", x.TxHash, x.Power, name)
			}
		}
	case "stakes/total_power":
		sum := int64(0)
		for _, d := range st.Delegatees {
			sum += d.Total
		}
		if code != 0 || string(val) != fmt.Sprint(sum) {
			return fmt.Sprintf("state sums to %d", sum)
		}
	case "reward":
		r, ok := st.Rewards[a]
		if code != 0 {
			if ok {
				return "reward record exists in the committed state but the query fails"
			}
			return ""
		}
		var q struct {
			Cumulated string `json:"cumulated"`
		}
		if json.Unmarshal(val, &q) != nil {
			return "unparsable answer"
		}
		if !ok || q.Cumulated != r.Cumulated {
			return fmt.Sprintf("state has cumulated %s (present %v)", r.Cumulated, ok)
		}
	case "proposal":
		if name == "all" {
			return ""
		}
		p, ok := st.Proposals[a]
		if code != 0 {
			if ok {
				return "proposal exists in the committed state but the query fails"
			}
			return ""
		}
		var q struct {
			Status string `json:"status"`
		}
		if json.Unmarshal(val, &q) != nil {
			return "unparsable answer"
		}
		if !ok || q.Status != p.Status {
			return fmt.Sprintf("state has status %q (present %v)", p.Status, ok)
		}
	case "gov_params":
		if code != 0 || string(val) != st.Params {
			return "differs from the parameters committed at that height"
		}
	}
	return ""
}

func (c *c19) Guards(a *engine.Agg, complete bool) []string {
	if a.Counters["queries"] < 10000 {
		return []string{"fewer than 10000 queries"}
	}
	if a.Counters["pending_mempool_checks_accepted"] == 0 {
		return []string{"no pending mempool check was accepted"}
	}
	return nil
}
