package checks

import (
	"fmt"
	"strings"
	"sync"

	"verif/mc/sim"
)

// refRun caches, per worker process, the reference (undisturbed) run of a history.
type refRun struct {
	Log    []string
	States []*sim.State
	Raw    [][][]byte // raw tx bytes per block
	Opts   []sim.BlockOpts
	Hashes []string // app hash per height (index h-1)
	Dead   bool
	DeadAt string
	Outs   [][]sim.TxOutcome
}

var (
	refMu    sync.Mutex
	refCache = map[string]*refRun{}
)

func reference(key string, h sim.History) *refRun {
	refMu.Lock()
	defer refMu.Unlock()
	if r, ok := refCache[key]; ok {
		return r
	}
	rr := sim.Run(tmpRoot(), h, nil)
	defer rr.Cleanup()
	r := &refRun{Log: rr.Chain.ConsensusLog(), States: rr.States, Dead: rr.Chain.Dead, DeadAt: rr.Chain.DeadReason, Outs: rr.Outcomes}
	for bi, outs := range rr.Outcomes {
		var raws [][]byte
		for _, o := range outs {
			raws = append(raws, o.Bytes)
		}
		r.Raw = append(r.Raw, raws)
		r.Opts = append(r.Opts, h.Blocks[bi].Opts)
	}
	for _, l := range rr.Chain.Log {
		if l.Kind == "Commit" && l.Panic == "" {
			r.Hashes = append(r.Hashes, strings.TrimPrefix(l.Resp, "apphash="))
		}
	}
	if len(refCache) > 64 {
		refCache = map[string]*refRun{}
	}
	refCache[key] = r
	return r
}

// normState removes what a failed transaction may legitimately materialise: an EMPTY account record
// (zero balance, zero nonce, no name/doc/code) for an address that was merely looked up.
func normState(s *sim.State) *sim.State {
	n := *s
	n.Accounts = map[string]sim.AcctSt{}
	for k, a := range s.Accounts {
		if a.Nonce == 0 && a.Balance == "0" && a.Name == "" && a.Doc == "" && a.Code == "" {
			continue
		}
		n.Accounts[k] = a
	}
	return &n
}

// stripIdx removes the "#idx" of DeliverTx lines so that logs with an inserted transaction can be compared.
func stripIdx(l string) string {
	if strings.HasPrefix(l, "DeliverTx@") {
		if i := strings.IndexByte(l, '#'); i > 0 {
			if j := strings.IndexByte(l[i:], ' '); j > 0 {
				return l[:i] + l[i+j:]
			}
		}
	}
	return l
}

func describeBlocks(h sim.History) []string {
	var out []string
	for i, b := range h.Blocks {
		var t []string
		for _, x := range b.Txs {
			t = append(t, x.String())
		}
		out = append(out, fmt.Sprintf("b%d[%s]", i+1, strings.Join(t, "; ")))
	}
	return out
}

// committedOnly drops the in-memory items of a state dump (parameters in force, validator set last reported): what
// remains is what the block committed to the seven ledgers and the EVM.
func committedOnly(s *sim.State) *sim.State {
	n := *s
	n.Active = ""
	n.LastVals = nil
	return &n
}
