package checks

// C03 — only the key holder of the sender address can cause a transaction's effects.
// (a) Input enumeration: for a valid signed transaction of every type, every mutation of a menu is
//     applied to the DECODED value of every field (the signature is kept), to the signature bytes,
//     to the claimed sender and to the chain id; every mutant must fail without effect.
// (b) Bounded injectivity of the signing pre-image: over the full product of per-field value menus,
//     two transactions that differ in an executed field never share a pre-image.

import (
	"bytes"
	"encoding/hex"
	"encoding/json"
	"fmt"
	"math/big"
	"strings"

	"github.com/holiman/uint256"
	ctrlertypes "github.com/rigochain/rigo-go/ctrlers/types"

	"verif/mc/engine"
	"verif/mc/sim"
)

type mutation struct {
	Field string
	Name  string
	F     func(tx *ctrlertypes.Trx, ch *sim.Chain) bool // false = not applicable to this tx
}

func addU256(x *uint256.Int, d string) *uint256.Int {
	b := x.ToBig()
	dd, _ := new(big.Int).SetString(d, 10)
	b.Add(b, dd)
	if b.Sign() < 0 || b.BitLen() > 256 {
		return nil
	}
	return sim.U256(b)
}

func c03Mutations() []mutation {
	var ms []mutation
	add := func(field, name string, f func(tx *ctrlertypes.Trx, ch *sim.Chain) bool) {
		ms = append(ms, mutation{field, name, f})
	}
	add("version", "+1", func(t *ctrlertypes.Trx, _ *sim.Chain) bool { t.Version++; return true })
	add("version", "=0", func(t *ctrlertypes.Trx, _ *sim.Chain) bool { t.Version = 0; return true })
	add("version", "=2^32-1", func(t *ctrlertypes.Trx, _ *sim.Chain) bool { t.Version = ^uint32(0); return true })
	add("time", "+1", func(t *ctrlertypes.Trx, _ *sim.Chain) bool { t.Time++; return true })
	add("time", "-1", func(t *ctrlertypes.Trx, _ *sim.Chain) bool { t.Time--; return true })
	add("time", "=0", func(t *ctrlertypes.Trx, _ *sim.Chain) bool { t.Time = 0; return true })
	add("time", "sign flip", func(t *ctrlertypes.Trx, _ *sim.Chain) bool { t.Time = -t.Time; return true })
	add("time", "+2^32", func(t *ctrlertypes.Trx, _ *sim.Chain) bool { t.Time += 1 << 32; return true })
	add("time", "+2^63 (wraps)", func(t *ctrlertypes.Trx, _ *sim.Chain) bool { t.Time = int64(uint64(t.Time) + 1<<63); return true })
	add("nonce", "+1", func(t *ctrlertypes.Trx, _ *sim.Chain) bool { t.Nonce++; return true })
	add("nonce", "-1", func(t *ctrlertypes.Trx, _ *sim.Chain) bool {
		if t.Nonce == 0 {
			return false
		}
		t.Nonce--
		return true
	})
	add("nonce", "+2^32", func(t *ctrlertypes.Trx, _ *sim.Chain) bool { t.Nonce += 1 << 32; return true })
	add("nonce", "=2^64-1", func(t *ctrlertypes.Trx, _ *sim.Chain) bool { t.Nonce = ^uint64(0); return true })
	for _, w := range []string{"U1", "W", "V0", "V1", "nobody"} {
		w := w
		add("from", "claimed sender "+w, func(t *ctrlertypes.Trx, ch *sim.Chain) bool {
			if string(t.From) == string(sim.W(w).Addr) {
				return false
			}
			t.From = sim.W(w).Addr
			// give the claimed sender's current nonce so that only the signature stands in the way
			t.Nonce = ch.Nonces[w]
			return true
		})
	}
	for _, w := range []string{"U0", "W", "zero", "contract:0", "V1"} {
		w := w
		add("to", "receiver "+w, func(t *ctrlertypes.Trx, ch *sim.Chain) bool {
			n := ch.ResolveTo(w)
			if string(n) == string(t.To) {
				return false
			}
			t.To = n
			return true
		})
	}
	for _, d := range []string{"1", "-1", "1000000000000000000", "18446744073709551616", "340282366920938463463374607431768211456"} {
		d := d
		add("amount", "+("+d+")", func(t *ctrlertypes.Trx, _ *sim.Chain) bool {
			n := addU256(t.Amount, d)
			if n == nil {
				return false
			}
			t.Amount = n
			return true
		})
	}
	add("amount", "=0", func(t *ctrlertypes.Trx, _ *sim.Chain) bool {
		if t.Amount.IsZero() {
			return false
		}
		t.Amount = uint256.NewInt(0)
		return true
	})
	add("amount", "x2", func(t *ctrlertypes.Trx, _ *sim.Chain) bool {
		if t.Amount.IsZero() {
			return false
		}
		t.Amount = new(uint256.Int).Lsh(t.Amount, 1)
		return true
	})
	add("gas", "+1", func(t *ctrlertypes.Trx, _ *sim.Chain) bool { t.Gas++; return true })
	add("gas", "+1000", func(t *ctrlertypes.Trx, _ *sim.Chain) bool { t.Gas += 1000; return true })
	add("gas", "+2^32", func(t *ctrlertypes.Trx, _ *sim.Chain) bool { t.Gas += 1 << 32; return true })
	add("gas", "x2", func(t *ctrlertypes.Trx, _ *sim.Chain) bool { t.Gas *= 2; return true })
	add("gasPrice", "+1", func(t *ctrlertypes.Trx, _ *sim.Chain) bool { t.GasPrice = addU256(t.GasPrice, "1"); return true })
	add("gasPrice", "-1", func(t *ctrlertypes.Trx, _ *sim.Chain) bool {
		t.GasPrice = addU256(t.GasPrice, "-1")
		return t.GasPrice != nil
	})
	add("gasPrice", "+2^64", func(t *ctrlertypes.Trx, _ *sim.Chain) bool {
		t.GasPrice = addU256(t.GasPrice, "18446744073709551616")
		return true
	})
	for ty := int32(1); ty <= 8; ty++ {
		ty := ty
		add("type", fmt.Sprintf("relabel to %d (payload kept)", ty), func(t *ctrlertypes.Trx, _ *sim.Chain) bool {
			if t.Type == ty {
				return false
			}
			t.Type = ty
			return true
		})
	}
	// payload sub-fields
	add("payload.unstake.hash", "flip a byte", func(t *ctrlertypes.Trx, _ *sim.Chain) bool {
		p, ok := t.Payload.(*ctrlertypes.TrxPayloadUnstaking)
		if !ok {
			return false
		}
		h := append([]byte{}, p.TxHash...)
		h[5] ^= 0x10
		t.Payload = &ctrlertypes.TrxPayloadUnstaking{TxHash: h}
		return true
	})
	add("payload.unstake.hash", "another stake of the same owner", func(t *ctrlertypes.Trx, ch *sim.Chain) bool {
		p, ok := t.Payload.(*ctrlertypes.TrxPayloadUnstaking)
		if !ok {
			return false
		}
		for _, s := range ch.Stakes {
			if string(sim.W(s.Owner).Addr) == string(t.From) && string(s.TxHash) != string(p.TxHash) {
				t.Payload = &ctrlertypes.TrxPayloadUnstaking{TxHash: s.TxHash}
				t.To = sim.W(s.To).Addr
				return true
			}
		}
		return false
	})
	for _, d := range []string{"1", "-1", "18446744073709551616"} {
		d := d
		add("payload.withdraw.reqAmt", "+("+d+")", func(t *ctrlertypes.Trx, _ *sim.Chain) bool {
			p, ok := t.Payload.(*ctrlertypes.TrxPayloadWithdraw)
			if !ok {
				return false
			}
			n := addU256(p.ReqAmt, d)
			if n == nil {
				return false
			}
			t.Payload = &ctrlertypes.TrxPayloadWithdraw{ReqAmt: n}
			return true
		})
	}
	pp := func(name string, f func(p *ctrlertypes.TrxPayloadProposal)) {
		add("payload.proposal", name, func(t *ctrlertypes.Trx, _ *sim.Chain) bool {
			p, ok := t.Payload.(*ctrlertypes.TrxPayloadProposal)
			if !ok {
				return false
			}
			c := *p
			c.Options = append([][]byte{}, p.Options...)
			f(&c)
			t.Payload = &c
			return true
		})
	}
	pp("message changed", func(p *ctrlertypes.TrxPayloadProposal) { p.Message += "!" })
	pp("start+1", func(p *ctrlertypes.TrxPayloadProposal) { p.StartVotingHeight++; p.ApplyingHeight++ })
	pp("start+2^32", func(p *ctrlertypes.TrxPayloadProposal) { p.StartVotingHeight += 1 << 32; p.ApplyingHeight += 1 << 32 })
	pp("period+1", func(p *ctrlertypes.TrxPayloadProposal) { p.VotingPeriodBlocks++; p.ApplyingHeight++ })
	pp("period+2^32", func(p *ctrlertypes.TrxPayloadProposal) { p.VotingPeriodBlocks += 1 << 32 })
	pp("apply+1", func(p *ctrlertypes.TrxPayloadProposal) { p.ApplyingHeight++ })
	pp("apply+2^31", func(p *ctrlertypes.TrxPayloadProposal) { p.ApplyingHeight += 1 << 31 })
	pp("apply+2^32", func(p *ctrlertypes.TrxPayloadProposal) { p.ApplyingHeight += 1 << 32 })
	pp("apply+2^40", func(p *ctrlertypes.TrxPayloadProposal) { p.ApplyingHeight += 1 << 40 })
	pp("apply+2^62", func(p *ctrlertypes.TrxPayloadProposal) { p.ApplyingHeight += 1 << 62 })
	pp("optType+0x10000", func(p *ctrlertypes.TrxPayloadProposal) { p.OptType += 0x10000 })
	pp("optType=common", func(p *ctrlertypes.TrxPayloadProposal) { p.OptType = 0x0200 })
	pp("option changed", func(p *ctrlertypes.TrxPayloadProposal) { p.Options[0] = []byte(`{"gasPrice":"9"}`) })
	pp("option appended", func(p *ctrlertypes.TrxPayloadProposal) { p.Options = append(p.Options, []byte(`{"gasPrice":"9"}`)) })
	pp("options swapped", func(p *ctrlertypes.TrxPayloadProposal) {
		if len(p.Options) > 1 {
			p.Options[0], p.Options[1] = p.Options[1], p.Options[0]
		} else {
			p.Options = append(p.Options, p.Options[0])
		}
	})
	add("payload.vote", "other choice", func(t *ctrlertypes.Trx, _ *sim.Chain) bool {
		p, ok := t.Payload.(*ctrlertypes.TrxPayloadVoting)
		if !ok {
			return false
		}
		t.Payload = &ctrlertypes.TrxPayloadVoting{TxHash: p.TxHash, Choice: 1 - p.Choice}
		return true
	})
	add("payload.vote", "other proposal", func(t *ctrlertypes.Trx, ch *sim.Chain) bool {
		p, ok := t.Payload.(*ctrlertypes.TrxPayloadVoting)
		if !ok || len(ch.Props) < 2 {
			return false
		}
		for _, h := range ch.Props {
			if string(h) != string(p.TxHash) {
				t.Payload = &ctrlertypes.TrxPayloadVoting{TxHash: h, Choice: p.Choice}
				return true
			}
		}
		return false
	})
	add("payload.contract.data", "byte flipped / appended", func(t *ctrlertypes.Trx, _ *sim.Chain) bool {
		p, ok := t.Payload.(*ctrlertypes.TrxPayloadContract)
		if !ok {
			return false
		}
		d := append(append([]byte{}, p.Data...), 0x00)
		d[0] ^= 0x01
		t.Payload = &ctrlertypes.TrxPayloadContract{Data: d}
		return true
	})
	add("payload.contract.data", "emptied", func(t *ctrlertypes.Trx, _ *sim.Chain) bool {
		p, ok := t.Payload.(*ctrlertypes.TrxPayloadContract)
		if !ok || len(p.Data) == 0 {
			return false
		}
		t.Payload = &ctrlertypes.TrxPayloadContract{}
		return true
	})
	add("payload.setdoc", "name changed", func(t *ctrlertypes.Trx, _ *sim.Chain) bool {
		p, ok := t.Payload.(*ctrlertypes.TrxPayloadSetDoc)
		if !ok {
			return false
		}
		t.Payload = &ctrlertypes.TrxPayloadSetDoc{Name: p.Name + "x", URL: p.URL}
		return true
	})
	add("payload.setdoc", "url changed", func(t *ctrlertypes.Trx, _ *sim.Chain) bool {
		p, ok := t.Payload.(*ctrlertypes.TrxPayloadSetDoc)
		if !ok {
			return false
		}
		t.Payload = &ctrlertypes.TrxPayloadSetDoc{Name: p.Name, URL: p.URL + "x"}
		return true
	})
	add("payload.setdoc", "name and url swapped boundary", func(t *ctrlertypes.Trx, _ *sim.Chain) bool {
		p, ok := t.Payload.(*ctrlertypes.TrxPayloadSetDoc)
		if !ok || len(p.Name) == 0 {
			return false
		}
		t.Payload = &ctrlertypes.TrxPayloadSetDoc{Name: p.Name[:len(p.Name)-1], URL: p.Name[len(p.Name)-1:] + p.URL}
		return true
	})
	// signature bytes
	for i := 0; i < 65; i++ {
		i := i
		add("sig", fmt.Sprintf("byte %d ^1", i), func(t *ctrlertypes.Trx, _ *sim.Chain) bool {
			s := append([]byte{}, t.Sig...)
			s[i] ^= 0x01
			t.Sig = s
			return true
		})
	}
	add("sig", "truncated to 64", func(t *ctrlertypes.Trx, _ *sim.Chain) bool { t.Sig = append([]byte{}, t.Sig[:64]...); return true })
	add("sig", "empty", func(t *ctrlertypes.Trx, _ *sim.Chain) bool { t.Sig = nil; return true })
	add("sig", "extended", func(t *ctrlertypes.Trx, _ *sim.Chain) bool {
		t.Sig = append(append([]byte{}, t.Sig...), 0)
		return true
	})
	add("sig", "v+27", func(t *ctrlertypes.Trx, _ *sim.Chain) bool {
		s := append([]byte{}, t.Sig...)
		s[64] += 27
		t.Sig = s
		return true
	})
	add("sig", "signature of another tx of the same sender", func(t *ctrlertypes.Trx, ch *sim.Chain) bool {
		o := *t
		o.Nonce++
		var w *sim.Wallet
		for _, n := range []string{"U0", "U1", "W", "V0", "V1", "V2", "V3"} {
			if string(sim.W(n).Addr) == string(t.From) {
				w = sim.W(n)
			}
		}
		if w == nil {
			return false
		}
		w.Sign(&o, ch.Gen.ChainID)
		t.Sig = o.Sig
		return true
	})
	return ms
}

func c03Bases() []sim.TxSpec {
	return []sim.TxSpec{
		tr("U0", "U1", "5R"),
		stk("U1", "V0", "1R"),
		unstk("U0", "U0", "V1", 0),
		wdr("V0", "7"),
		prop("V1", 2, 2, 1, `{"slashRatio":"40"}`, `{"slashRatio":"30"}`),
		vote("V0", 0, 0),
		deploy("U0", counterInit, "0"),
		call("U1", "contract:0", "", "0"),
		setdoc("U1", "bob", "http://b"),
		with(tr("W", "contract:0", "0"), func(s *sim.TxSpec) { s.Gas = 60000 }, "to contract"),
	}
}

type c03Case struct {
	Mode  string `json:"mode"` // mutate | pairs | chain | preimage
	Base  int    `json:"base"`
	Only  int    `json:"only"` // replay: only this mutation index (-1 all)
	Shard int    `json:"shard,omitempty"`
	Lv    int    `json:"lv"`
}

type c03 struct {
	tier  string
	cases []c03Case
}

func init() { engine.Register("C03", func() engine.Check { return &c03{} }) }

func (c *c03) ID() string { return "C03" }
func (c *c03) Meta() engine.Meta {
	return engine.Meta{
		Category:  "model_checking",
		LevelName: "1 = single mutations / pre-image products, 2 = pairs of mutations of different fields, 3 = triples (thorough)",
		Technique: "bounded-exhaustive mutation enumeration of signed transactions on the real application (twin oracle) + exhaustive bounded injectivity check of the signing pre-image",
		Rule: "(a) 10 valid signed base transactions (all 8 types, deployment, call, transfer to a contract) at a state where each of them succeeds; mutation operators on the DECODED value of every field with the signature KEPT: version, time (+-1, 0, sign flip, +2^32, +2^63), nonce, claimed sender (5 other accounts, with their current nonce), receiver, amount (+-1, +1R, +2^64, +2^128, 0, x2), gas, gas price, type (relabel to each of the 8 types), every payload sub-field incl. the narrowed ones (heights +1 / +2^31 / +2^32 / +2^40 / +2^62, option type +2^16, options changed / appended / swapped, vote choice / proposal, call data, name / url boundary shift), the signature itself (every byte, truncation, extension, v+27, a signature of another transaction of the same sender) and the chain id (application initialised with another id or with a mixed-case id; transaction signed for another id and for 11 NEAR variants of the application's own id: other case, leading / trailing blank, newline, tab, NUL, shortened, extended, doubled): all single mutations and all pairs of mutations of two different fields (thorough: also all triples over three different non-signature fields). The node has seen the genuine transaction in a mempool check before the mutants arrive, and a second pass re-uses the genuine signature on altered copies with the next nonce after the genuine transaction was executed. Separately, unsigned material is ATTACHED on the wire to signed transactions of payload-less types (contract call data / setdoc / withdraw / unstaking payload objects next to a transfer to a call-data-sensitive contract, a plain transfer, a delegation, a self-stake): such a copy is either refused or has exactly the genuine transaction's effect on the complete state. Oracle: the mutant's DeliverTx code is non-zero, the unmodified transaction still succeeds afterwards, and the complete state equals the twin that never saw the mutants. " +
			"(b) for every transaction type the full product of per-field value menus (values chosen to collide under any 32/64-bit narrowing: x, x+1, x+2^31, x+2^32, x+2^40, negative / wrapped): no two transactions that differ in an executed field share the signing pre-image (hash-set based). " +
			"distinct_nontrivial = cases in which at least one mutant was rejected BY THE SIGNATURE CHECK (not by an earlier validation).",
		Assumptions: []string{
			"wire-level re-encodings that decode to the same values are not alterations in the statement's sense and are not explored here (C09 explores byte-level mutations for crashes)",
			"secp256k1 / sha256 are trusted; injectivity is claimed over the enumerated menus only",
		},
	}
}

func (c *c03) Prepare(tier string, seed int64) error {
	c.tier = tier
	c.cases = nil
	for b := range c03Bases() {
		c.cases = append(c.cases, c03Case{Mode: "mutate", Base: b, Only: -1, Lv: 1})
	}
	c.cases = append(c.cases, c03Case{Mode: "chain", Only: -1, Lv: 1})
	c.cases = append(c.cases, c03Case{Mode: "extras", Only: -1, Lv: 1})
	for b := 0; b < 8; b++ {
		c.cases = append(c.cases, c03Case{Mode: "preimage", Base: b, Only: -1, Lv: 1})
	}
	for b := range c03Bases() {
		c.cases = append(c.cases, c03Case{Mode: "pairs", Base: b, Only: -1, Lv: 2})
	}
	if tier == "thorough" {
		// all TRIPLES of mutations of three different non-signature fields, sharded 16 ways per base
		for b := range c03Bases() {
			for sh := 0; sh < 16; sh++ {
				c.cases = append(c.cases, c03Case{Mode: "triples", Base: b, Shard: sh, Only: -1, Lv: 3})
			}
		}
	}
	return nil
}

func (c *c03) NumCases() int              { return len(c.cases) }
func (c *c03) Level(i int) int            { return c.cases[i].Lv }
func (c *c03) Desc(i int) json.RawMessage { return sim.MustJSON(c.cases[i]) }

// c03State: dense history up to block 4 + a second proposal so that every base transaction is executable in block 5.
func c03History() sim.History {
	h := denseHistory(genesis3())
	h.Blocks = h.Blocks[:4]
	h.Blocks[3].Txs = []sim.TxSpec{prop("V0", 1, 3, 1, `{"gasPrice":"4"}`, `{"gasPrice":"5"}`)}
	h.Blocks[2].Txs = append(h.Blocks[2].Txs, stk("U0", "V1", "2R"))
	return h
}

func (c *c03) RunDesc(desc json.RawMessage) engine.Result {
	var cs c03Case
	cs.Only = -1
	_ = json.Unmarshal(desc, &cs)
	switch cs.Mode {
	case "preimage":
		return c.preimage(cs, desc)
	case "chain":
		return c.chainID(cs, desc)
	case "extras":
		return c.extras(cs, desc)
	}
	res := engine.Result{}
	base := c03Bases()[cs.Base]
	muts := c03Mutations()
	type job struct {
		name   string
		fields string
		apply  func(tx *ctrlertypes.Trx, ch *sim.Chain) bool
	}
	var jobs []job
	if cs.Mode == "mutate" {
		for _, m := range muts {
			m := m
			jobs = append(jobs, job{m.Field + " " + m.Name, m.Field, m.F})
		}
	} else if cs.Mode == "triples" {
		var ns []mutation
		for _, m := range muts {
			if m.Field != "sig" {
				ns = append(ns, m)
			}
		}
		n := 0
		for i := range ns {
			for j := i + 1; j < len(ns); j++ {
				for k := j + 1; k < len(ns); k++ {
					m1, m2, m3 := ns[i], ns[j], ns[k]
					if m1.Field == m2.Field || m2.Field == m3.Field || m1.Field == m3.Field {
						continue
					}
					n++
					if n%16 != cs.Shard {
						continue
					}
					jobs = append(jobs, job{m1.Field + " " + m1.Name + " & " + m2.Field + " " + m2.Name + " & " + m3.Field + " " + m3.Name, m1.Field + "&" + m2.Field + "&" + m3.Field, func(tx *ctrlertypes.Trx, ch *sim.Chain) bool {
						return m1.F(tx, ch) && m2.F(tx, ch) && m3.F(tx, ch)
					}})
				}
			}
		}
	} else {
		for i, m1 := range muts {
			for j, m2 := range muts {
				if j <= i || m1.Field == m2.Field || (m1.Field == "sig" && m2.Field == "sig") {
					continue
				}
				// pairs with a signature-byte mutation add nothing beyond the single ones except for a few
				if (m1.Field == "sig" && !strings.Contains(m1.Name, "another tx")) || (m2.Field == "sig" && !strings.Contains(m2.Name, "another tx")) {
					continue
				}
				m1, m2 := m1, m2
				jobs = append(jobs, job{m1.Field + " " + m1.Name + " & " + m2.Field + " " + m2.Name, m1.Field + "&" + m2.Field, func(tx *ctrlertypes.Trx, ch *sim.Chain) bool {
					return m1.F(tx, ch) && m2.F(tx, ch)
				}})
			}
		}
	}
	h := c03History()
	run := sim.Run(tmpRoot(), h, &sim.Hooks{NoStates: true})
	defer func() { run.Cleanup() }()
	if run.Err != "" || run.Chain.Dead {
		res.Err = "prepare: " + run.Err + run.Chain.DeadReason
		return res
	}
	ch := run.Chain
	bySig, byOther, na := 0, 0, 0
	// the node has SEEN the genuine transaction (mempool check) before the altered copies arrive: the
	// front-running scenario, and the one in which any per-signature shortcut would be primed
	ch.Check(base, nil)
	ch.BeginBlock(sim.BlockOpts{Proposer: "V0"})
	before, _ := ch.DumpState(0, ch.Deployed)
	for i, j := range jobs {
		if cs.Only >= 0 && i != cs.Only {
			continue
		}
		tx := ch.Build(base, ch.EnvFor(base, nil))
		if !j.apply(tx, ch) {
			na++
			continue
		}
		bz := encodeTx(tx)
		if bz == nil {
			na++
			continue
		}
		rec, resp := ch.DeliverRaw(bz, "MUTANT "+j.name)
		res.Transitions++
		if rec.Panic != "" {
			res.Count("mutant_panicked(C09 matter)", 1)
			continue
		}
		if resp.Code == 0 {
			one := cs
			one.Only = i
			res.Violations = append(res.Violations, engine.Violation{Property: "C03", Kind: "altered-transaction-executed", Site: base.Type + ": " + j.fields,
				Detail: fmt.Sprintf("base <%s>, mutation <%s>, signature kept: DeliverTx returned code 0", base.String(), j.name), Case: sim.MustJSON(one)})
			// state is now polluted: restart from a clean chain
			run.Cleanup()
			run = sim.Run(tmpRoot(), h, &sim.Hooks{NoStates: true})
			ch = run.Chain
			ch.BeginBlock(sim.BlockOpts{Proposer: "V0"})
			continue
		}
		l := strings.ToLower(resp.Log)
		if strings.Contains(l, "signature") || strings.Contains(l, "wrong address or sig") || strings.Contains(l, "recovery") {
			bySig++
			res.Count("rejected_by_signature:"+strings.SplitN(j.fields, "&", 2)[0], 1)
		} else {
			byOther++
		}
	}
	// no effect: the unmodified transaction still succeeds, and nothing else moved
	out := ch.Deliver(base, nil)
	if out.Code != 0 {
		res.Violations = append(res.Violations, engine.Violation{Property: "C03", Kind: "genuine-transaction-fails-after-mutants", Site: base.Type,
			Detail: fmt.Sprintf("after %d rejected mutants the genuine <%s> fails: %s", len(jobs), base.String(), firstLineOf(out.Rec.Log)), Case: desc})
	}
	// second pass (single mutations only): the genuine transaction HAS BEEN EXECUTED; its signature is re-used on
	// altered copies that carry the sender's NEXT nonce, so that nothing but the signature stands in their way
	if cs.Mode == "mutate" && out.Code == 0 {
		genuineSig := append([]byte{}, out.Tx.Sig...)
		for i, j := range jobs {
			if cs.Only >= 0 && i != cs.Only+100000 {
				continue
			}
			tx := ch.Build(base, ch.EnvFor(base, nil)) // next nonce
			tx.Sig = append([]byte{}, genuineSig...)
			if strings.HasPrefix(j.fields, "sig") || strings.HasPrefix(j.fields, "nonce") {
				continue
			}
			if !j.apply(tx, ch) {
				continue
			}
			bz := encodeTx(tx)
			if bz == nil {
				continue
			}
			rec, resp := ch.DeliverRaw(bz, "REUSED-SIG "+j.name)
			res.Transitions++
			if rec.Panic == "" && resp.Code == 0 {
				one := cs
				one.Only = i + 100000
				res.Violations = append(res.Violations, engine.Violation{Property: "C03", Kind: "executed-signature-authorises-another-transaction", Site: base.Type + ": " + j.fields,
					Detail: fmt.Sprintf("after the genuine <%s> was executed, a copy with the next nonce, mutation <%s> and the genuine transaction's signature returned code 0", base.String(), j.name), Case: sim.MustJSON(one)})
				break
			}
			res.Count("reused_signature_mutants", 1)
		}
		// plain re-use: next nonce, nothing else changed
		tx := ch.Build(base, ch.EnvFor(base, nil))
		tx.Sig = append([]byte{}, genuineSig...)
		if bz := encodeTx(tx); bz != nil {
			if rec, resp := ch.DeliverRaw(bz, "REUSED-SIG next nonce only"); rec.Panic == "" && resp.Code == 0 {
				res.Violations = append(res.Violations, engine.Violation{Property: "C03", Kind: "executed-signature-authorises-another-transaction", Site: base.Type + ": nonce",
					Detail: fmt.Sprintf("after the genuine <%s> was executed, the same content with the next nonce and the OLD signature returned code 0", base.String()), Case: desc})
			}
		}
	}
	if len(res.Violations) > 0 {
		return res
	}
	ch.EndBlock()
	ch.Commit()
	after, _ := ch.DumpState(0, ch.Deployed)
	// twin: the same block with only the genuine transaction
	tw := sim.Run(tmpRoot(), h, &sim.Hooks{NoStates: true})
	defer tw.Cleanup()
	tw.Chain.BeginBlock(sim.BlockOpts{Proposer: "V0"})
	tw.Chain.Deliver(base, nil)
	tw.Chain.EndBlock()
	tw.Chain.Commit()
	twin, _ := tw.Chain.DumpState(0, tw.Chain.Deployed)
	if after != nil && twin != nil && len(res.Violations) == 0 {
		if na, nb := normState(after), normState(twin); na.JSON() != nb.JSON() {
			d := sim.DiffStates(na, nb)
			if len(d) > 5 {
				d = d[:5]
			}
			res.Violations = append(res.Violations, engine.Violation{Property: "C03", Kind: "rejected-mutants-changed-state", Site: base.Type,
				Detail: fmt.Sprintf("state after the rejected mutants + genuine <%s> differs from the twin that saw only the genuine one:\n %s", base.String(), strings.Join(d, "\n ")), Case: desc})
		}
	}
	_ = before
	res.Count("mutants", bySig+byOther)
	res.Count("mutants_rejected_by_signature", bySig)
	res.Count("mutants_rejected_earlier", byOther)
	res.Count("mutations_not_applicable", na)
	res.Nontrivial = bySig > 0
	res.Outcome = fmt.Sprintf("%s/%d", cs.Mode, cs.Base)
	res.States = append(res.States, shortHash(fmt.Sprintf("%s/%d/%d/%d", cs.Mode, cs.Base, bySig, byOther)))
	if after != nil {
		res.States = append(res.States, after.Hash())
	}
	if cs.Mode == "mutate" {
		var names []string
		for i, j := range jobs {
			if i%13 == 0 {
				names = append(names, j.name)
			}
		}
		res.Sample = sim.MustJSON(map[string]interface{}{"base": base.String(), "some_mutations": names, "rejected_by_signature": bySig, "rejected_earlier": byOther})
	}
	return res
}

// chainID: a transaction signed for another chain id is never accepted, in both directions.
func (c *c03) chainID(cs c03Case, desc json.RawMessage) engine.Result {
	res := engine.Result{}
	for _, dir := range []string{"tx-signed-for-other-chain", "app-initialised-with-other-id", "app-id-mixed-case"} {
		g := genesis3()
		if dir == "app-initialised-with-other-id" {
			g.ChainID = "another-chain"
		}
		if dir == "app-id-mixed-case" {
			g.ChainID = "Verif-Chain 7"
		}
		h := sim.History{Gen: g, Blocks: []sim.Block{blk(), blk()}}
		run := sim.Run(tmpRoot(), h, &sim.Hooks{NoStates: true})
		ch := run.Chain
		ch.BeginBlock(sim.BlockOpts{Proposer: "V0"})
		for _, b := range []sim.TxSpec{tr("U0", "U1", "5R"), stk("U1", "V0", "1R"), setdoc("U1", "bob", "http://b"), deploy("U0", counterInit, "0")} {
			s := b
			if dir == "tx-signed-for-other-chain" {
				s.ChainID = "another-chain"
			} else {
				s.ChainID = "verif-chain"
			}
			// foreign ids, and NEAR variants of the application's own id (case, surrounding white space, NUL, prefix, suffix, empty)
			own := g.ChainID
			if own == "" {
				own = "verif-chain"
			}
			variants := []string{s.ChainID, s.ChainID + " ", strings.ToUpper(s.ChainID), "x",
				strings.ToUpper(own), strings.ToLower(own), strings.Title(own), own + " ", " " + own, own + "\n", own + "\t", own + "\x00", own[:len(own)-1], own + "x", own + own}
			for _, other := range variants {
				s.ChainID = other
				if other == g.ChainID || other == own || other == "" {
					continue // "" is resolved by the harness to the application's own id
				}
				out := ch.Deliver(s, nil)
				res.Transitions++
				res.Count("mutants", 1)
				if out.Code == 0 {
					res.Violations = append(res.Violations, engine.Violation{Property: "C03", Kind: "transaction-for-another-chain-accepted", Site: dir,
						Detail: fmt.Sprintf("<%s> signed for chain id %q accepted by a chain with id %q", b.String(), other, g.ChainID), Case: desc})
				} else if strings.Contains(strings.ToLower(out.Rec.Log), "sig") {
					res.Count("mutants_rejected_by_signature", 1)
					res.Count("rejected_by_signature:chainid", 1)
				}
			}
		}
		run.Cleanup()
	}
	res.Nontrivial = res.Counters["mutants_rejected_by_signature"] > 0
	res.Outcome = "chain"
	res.States = append(res.States, "chain")
	return res
}

// extras: unsigned material ATTACHED on the wire to a signed transaction of a type that carries no payload (a payload
// object of some type put next to a transfer / staking envelope; the signature is kept). Either the node refuses the
// copy, or the copy has exactly the effect of the genuine transaction: the complete state two blocks later equals the
// twin's that executed the genuine one. The receiving contract's behaviour depends on its call data (it stores
// CALLDATASIZE and the first call-data word), so executed extra bytes cannot hide.
func (c *c03) extras(cs c03Case, desc json.RawMessage) engine.Result {
	res := engine.Result{}
	// runtime: CALLDATASIZE -> slot 1 ; CALLDATALOAD(0) -> slot 2 ; STOP
	probe := hex.EncodeToString(initCodeFor(hx2("36600155 600035600255 00")))
	hist := sim.History{Gen: genesis3(), Blocks: []sim.Block{blk(), blk(deploy("U0", probe, "0")), blk(stk("U0", "V1", "2R"))}}
	bases := []sim.TxSpec{
		with(tr("U1", "contract:0", "5"), func(s *sim.TxSpec) { s.Gas = 200000 }, "transfer to the probing contract"),
		tr("U1", "W", "1R"),
		stk("U1", "V1", "1R"),
		stk("W", "W", "3R"),
	}
	attach := []struct {
		name string
		p    func() ctrlertypes.ITrxPayload
	}{
		{"contract call data", func() ctrlertypes.ITrxPayload {
			return &ctrlertypes.TrxPayloadContract{Data: bytes.Repeat([]byte{0xa7}, 32)}
		}},
		{"setdoc payload", func() ctrlertypes.ITrxPayload { return &ctrlertypes.TrxPayloadSetDoc{Name: "mallory", URL: "http://m"} }},
		{"withdraw payload", func() ctrlertypes.ITrxPayload { return &ctrlertypes.TrxPayloadWithdraw{ReqAmt: uint256.NewInt(7)} }},
		{"unstaking payload", func() ctrlertypes.ITrxPayload { return &ctrlertypes.TrxPayloadUnstaking{TxHash: make([]byte, 32)} }},
	}
	for bi, b := range bases {
		// twin: the genuine transaction
		ref := sim.Run(tmpRoot(), hist, &sim.Hooks{NoStates: true})
		if ref.Err != "" || ref.Chain.Dead {
			res.Err = "prepare: " + ref.Err
			ref.Cleanup()
			return res
		}
		ref.Chain.BeginBlock(sim.BlockOpts{Proposer: "V0"})
		g := ref.Chain.Deliver(b, nil)
		ref.Chain.EndBlock()
		ref.Chain.Commit()
		want, _ := ref.Chain.DumpState(0, ref.Chain.Deployed)
		ref.Cleanup()
		if g.Code != 0 {
			res.Err = fmt.Sprintf("extras: the genuine <%s> fails: %s", b.String(), firstLineOf(g.Rec.Log))
			return res
		}
		for ai, a := range attach {
			if cs.Only >= 0 && cs.Only != bi*10+ai {
				continue
			}
			run := sim.Run(tmpRoot(), hist, &sim.Hooks{NoStates: true})
			ch := run.Chain
			ch.BeginBlock(sim.BlockOpts{Proposer: "V0"})
			tx := ch.Build(b, ch.EnvFor(b, nil))
			tx.Payload = a.p()
			bz := encodeTx(tx)
			if bz == nil {
				res.Count("extras_not_encodable", 1)
				run.Cleanup()
				continue
			}
			rec, resp := ch.DeliverRaw(bz, "EXTRA "+a.name)
			res.Transitions++
			res.Count("extras", 1)
			if rec.Panic != "" {
				res.Count("mutant_panicked(C09 matter)", 1)
				run.Cleanup()
				continue
			}
			if resp.Code != 0 {
				res.Count("extras_refused", 1)
				run.Cleanup()
				continue
			}
			res.Count("extras_accepted(effect compared)", 1)
			ch.EndBlock()
			ch.Commit()
			got, _ := ch.DumpState(0, ch.Deployed)
			// the id of a stake is the hash of the WIRE bytes, which differ by construction (the attachment is part of them);
			// the hash is not one of the fields the statement lists - stakes are compared without it (noted in DESIGN §11.4)
			noIDs := func(st *sim.State) *sim.State {
				if st == nil {
					return nil
				}
				n := *st
				n.Delegatees = map[string]sim.DelegSt{}
				for k, d := range st.Delegatees {
					dd := d
					dd.Stakes = append([]sim.StakeSt{}, d.Stakes...)
					for i := range dd.Stakes {
						dd.Stakes[i].TxHash = ""
					}
					n.Delegatees[k] = dd
				}
				return &n
			}
			got, want := noIDs(got), noIDs(want)
			if got != nil && want != nil && got.JSON() != want.JSON() {
				one := cs
				one.Only = bi*10 + ai
				d := sim.DiffStates(got, want)
				res.Violations = append(res.Violations, engine.Violation{Property: "C03", Kind: "unsigned-attachment-executed", Site: b.Type + ": " + a.name,
					Detail: fmt.Sprintf("<%s> with an unsigned %s attached (signature kept) was accepted and its effect differs from the genuine transaction's (copy != genuine): %v", b.String(), a.name, tailOf(d, 6)), Case: sim.MustJSON(one)})
			}
			run.Cleanup()
		}
	}
	res.Nontrivial = res.Counters["extras"] > 0
	res.Outcome = "extras"
	res.States = append(res.States, "extras")
	return res
}

// ---- (b) pre-image injectivity ----

func (c *c03) preimage(cs c03Case, desc json.RawMessage) engine.Result {
	res := engine.Result{}
	ty := int32(cs.Base + 1)
	i64 := []int64{5, 6, 5 + 1<<31, 5 + 1<<32, 5 + 1<<40, -5, 5 - 1<<63}
	u64 := []uint64{7, 8, 7 + 1<<32, 7 + 1<<63}
	amounts := []*uint256.Int{uint256.NewInt(0), uint256.NewInt(9), u256hex("18446744073709551625"), u256hex("340282366920938463463374607431768211465")}
	addrs := [][]byte{sim.W("U0").Addr, sim.W("U1").Addr, make([]byte, 20)}
	var payloads []ctrlertypes.ITrxPayload
	var pdesc []string
	addP := func(p ctrlertypes.ITrxPayload, d string) { payloads = append(payloads, p); pdesc = append(pdesc, d) }
	hashes := [][]byte{make([]byte, 32), append(make([]byte, 31), 1), append([]byte{1}, make([]byte, 31)...)}
	switch ty {
	case ctrlertypes.TRX_TRANSFER, ctrlertypes.TRX_STAKING:
		addP(nil, "nil")
	case ctrlertypes.TRX_UNSTAKING:
		for i, h := range hashes {
			addP(&ctrlertypes.TrxPayloadUnstaking{TxHash: h}, fmt.Sprint("hash", i))
		}
	case ctrlertypes.TRX_WITHDRAW:
		for i, a := range amounts {
			addP(&ctrlertypes.TrxPayloadWithdraw{ReqAmt: a}, fmt.Sprint("req", i))
		}
	case ctrlertypes.TRX_PROPOSAL:
		opts := [][][]byte{{[]byte("a")}, {[]byte("a"), []byte("b")}, {[]byte("ab")}, {[]byte("b"), []byte("a")}}
		for _, msg := range []string{"m", "mm"} {
			for _, st := range i64 {
				for _, pe := range []int64{1, 1 + 1<<32, -1} {
					for _, ap := range i64 {
						for _, ot := range []int32{0x0101, 0x0200, 0x0101 + 0x10000, -1} {
							for oi, o := range opts {
								addP(&ctrlertypes.TrxPayloadProposal{Message: msg, StartVotingHeight: st, VotingPeriodBlocks: pe, ApplyingHeight: ap, OptType: ot, Options: o},
									fmt.Sprintf("%s/%d/%d/%d/%d/o%d", msg, st, pe, ap, ot, oi))
							}
						}
					}
				}
			}
		}
	case ctrlertypes.TRX_VOTING:
		for i, h := range hashes {
			for _, ch := range []int32{0, 1, -1, 1 << 30, -(1 << 31)} {
				addP(&ctrlertypes.TrxPayloadVoting{TxHash: h, Choice: ch}, fmt.Sprintf("h%d/%d", i, ch))
			}
		}
	case ctrlertypes.TRX_CONTRACT:
		for _, d := range []string{"", "00", "0000", "6000"} {
			addP(&ctrlertypes.TrxPayloadContract{Data: []byte(d)}, "data:"+d)
		}
	case ctrlertypes.TRX_SETDOC:
		for _, nu := range [][2]string{{"ab", "c"}, {"a", "bc"}, {"abc", ""}, {"", "abc"}, {"ab", "cd"}} {
			addP(&ctrlertypes.TrxPayloadSetDoc{Name: nu[0], URL: nu[1]}, nu[0]+"|"+nu[1])
		}
	}
	outer := 1
	if len(payloads) > 200 {
		outer = 0 // big payload product: keep the envelope fixed
	}
	seen := map[string]string{}
	n := 0
	versions := []uint32{1, 2, 1 + 1<<31}
	times := []int64{100, 101, 100 + 1<<32, -100}
	if outer == 0 {
		versions, times, u64, amounts, addrs = versions[:1], times[:1], u64[:1], amounts[:1], addrs[:1]
	}
	for _, v := range versions {
		for _, tm := range times {
			for _, no := range u64 {
				for fi, fr := range addrs {
					for ti, to := range addrs {
						for ai, am := range amounts {
							for _, gs := range u64 {
								for pi, pr := range amounts {
									if outer == 1 && pi > 1 {
										continue
									}
									for k, p := range payloads {
										tx := &ctrlertypes.Trx{Version: v, Time: tm, Nonce: no, From: fr, To: to, Amount: am, Gas: gs, GasPrice: pr, Type: ty, Payload: p}
										pre, xerr := ctrlertypes.PreImageToSignTrxRLP(tx, "verif-chain")
										if xerr != nil {
											continue
										}
										n++
										key := fmt.Sprintf("v%d t%d n%d f%d to%d a%d g%d p%d %s", v, tm, no, fi, ti, ai, gs, pi, pdesc[k])
										if old, ok := seen[string(pre)]; ok && old != key {
											res.Violations = append(res.Violations, engine.Violation{Property: "C03", Kind: "signing-preimage-collision", Site: fmt.Sprintf("type %d", ty),
												Detail: fmt.Sprintf("two type-%d transactions that differ in an executed field share one signing pre-image:\n %s\n %s", ty, old, key), Case: desc})
											res.Count("preimages", n)
											return res
										}
										seen[string(pre)] = key
									}
								}
							}
						}
					}
				}
			}
		}
	}
	// cross-type: the same envelope labelled with another payload-less type
	res.Count("preimages", n)
	res.Transitions = n
	res.Nontrivial = n > 100
	res.Outcome = fmt.Sprintf("preimage/%d", ty)
	res.States = append(res.States, shortHash(fmt.Sprintf("pre%d/%d", ty, len(seen))))
	res.Sample = sim.MustJSON(map[string]interface{}{"mode": "preimage", "type": ty, "transactions_enumerated": n, "distinct_preimages": len(seen)})
	return res
}

func (c *c03) Guards(a *engine.Agg, complete bool) []string {
	var g []string
	for _, f := range []string{"version", "time", "nonce", "from", "to", "amount", "gas", "type", "payload.proposal", "payload.vote", "payload.unstake.hash", "payload.withdraw.reqAmt", "payload.contract.data", "payload.setdoc", "sig", "chainid"} {
		if a.Counters["rejected_by_signature:"+f] == 0 {
			g = append(g, "no mutation of field "+f+" was rejected by the signature check")
		}
	}
	if a.Counters["preimages"] < 10000 {
		g = append(g, "fewer than 10000 pre-images enumerated")
	}
	return g
}
