package checks

// C05 — a failed transaction has no effect.  For every failing template of a menu (one per failure
// reason × type) inserted at EVERY position of a dense history: the replica that received it and
// the replica that did not must agree on every later result and on the complete committed state.

import (
	"encoding/json"
	"fmt"
	"strings"

	"verif/mc/engine"
	"verif/mc/sim"
)

func failMenu() []sim.TxSpec {
	long := strings.Repeat("n", 2049)
	t := tr("U0", "U1", "1")
	m := []sim.TxSpec{
		with(t, func(s *sim.TxSpec) { s.BadSig = "flip" }, "bad signature"),
		with(t, func(s *sim.TxSpec) { s.SignBy = "W" }, "signed by another key"),
		with(t, func(s *sim.TxSpec) { s.ChainID = "other-chain" }, "signed for another chain"),
		with(t, func(s *sim.TxSpec) { s.NonceOff = 1 }, "nonce+1"),
		with(tr("W", "U1", "1"), func(s *sim.TxSpec) { s.NonceOff = -1 }, "nonce-1"),
		with(tr("U1", "U0", "bal-fee+1"), func(s *sim.TxSpec) {}, "funds short by 1"),
		with(t, func(s *sim.TxSpec) { s.GasExpr = "min-1" }, "gas below minimum"),
		with(t, func(s *sim.TxSpec) { s.Price = "p+1" }, "price+1"),
		with(t, func(s *sim.TxSpec) { s.Price = "p-1" }, "price-1"),
		with(t, func(s *sim.TxSpec) { s.Price = "0" }, "price 0"),
		with(tr("U0", "U1", "2^255"), func(s *sim.TxSpec) {}, "amount 2^255"),
		with(tr("U0", "U1", "2^256-1"), func(s *sim.TxSpec) {}, "amount 2^256-1"),
		with(setdoc("U1", long, "u"), func(s *sim.TxSpec) { s.Tag = "setdoc U1 over-long name" }, "too long"),
		// the FIRST field is acceptable, a later one is not (a failure after part of the work may already be done)
		with(setdoc("U1", "mallory", long), func(s *sim.TxSpec) { s.Tag = "setdoc U1 good name, over-long url" }, "url too long"),
		with(setdoc("W", "walter", long), func(s *sim.TxSpec) { s.Tag = "setdoc W good name, over-long url" }, "url too long (W)"),
		with(prop("V0", 1, 1, 1, `{"gasPrice":"9"}`, `not json`), func(s *sim.TxSpec) {}, "second option is not JSON"),
		with(prop("V0", 1, 1, 1, `{"gasPrice":"9"}`, `{"slashRatio":"-1"}`), func(s *sim.TxSpec) {}, "second option negative"),
		with(stk("U0", "V0", "1R+1"), func(s *sim.TxSpec) {}, "not a multiple"),
		with(stk("U0", "V0", "0"), func(s *sim.TxSpec) {}, "zero stake"),
		with(stk("W", "W", "1R"), func(s *sim.TxSpec) {}, "self stake below validator minimum"),
		with(stk("U0", "X", "1R"), func(s *sim.TxSpec) {}, "unknown delegatee"),
		with(stk("U0", "V0", "2^255"), func(s *sim.TxSpec) {}, "stake 2^255"),
		with(stk("U1", "V0", "bal"), func(s *sim.TxSpec) {}, "stake whole balance: amount ok, amount+fee not"),
		with(stk("P", "P", "2R"), func(s *sim.TxSpec) {}, "self-stake: balance covers the amount but not amount+fee"),
		with(stk("P", "V0", "2R"), func(s *sim.TxSpec) {}, "delegation: balance covers the amount but not amount+fee"),
		with(tr("P", "U0", "2R"), func(s *sim.TxSpec) {}, "transfer: balance covers the amount but not amount+fee"),
		with(stk("U1", "V0", "900R"), func(s *sim.TxSpec) {}, "huge delegation (self-stake ratio / limiter)"),
		with(unstk("W", "U0", "V1", 0), func(s *sim.TxSpec) {}, "unstake by stranger"),
		with(unstk("V1", "U0", "V1", 0), func(s *sim.TxSpec) {}, "unstake by the delegatee"),
		with(unstk("U0", "nobody", "", 0), func(s *sim.TxSpec) { s.To = "V1" }, "unknown stake hash"),
		with(unstk("U0", "U0", "V1", 0), func(s *sim.TxSpec) { s.RawHash = strings.Repeat("ab", 31); s.To = "V1" }, "31-byte hash"),
		with(wdr("W", "1"), func(s *sim.TxSpec) {}, "no reward record"),
		with(wdr("V0", "2^255"), func(s *sim.TxSpec) {}, "withdraw above claim"),
		with(wdr("V0", "1"), func(s *sim.TxSpec) { s.Amount = "1" }, "withdraw with non-zero amount"),
		with(prop("U0", 1, 1, 1, `{"gasPrice":"9"}`), func(s *sim.TxSpec) {}, "proposal by non-validator"),
		with(prop("V0", 0, 1, 1, `{"gasPrice":"9"}`), func(s *sim.TxSpec) {}, "start height not in the future"),
		with(prop("V0", 1, 4, 1, `{"gasPrice":"9"}`), func(s *sim.TxSpec) {}, "period too long"),
		with(prop("V0", 1, 1, 0, `{"gasPrice":"9"}`), func(s *sim.TxSpec) {}, "applying height too early"),
		with(prop("V0", 1, 1, 1, `not json`), func(s *sim.TxSpec) {}, "option is not JSON"),
		with(prop("V0", 1, 1, 1), func(s *sim.TxSpec) {}, "no options"),
		with(vote("W", 0, 0), func(s *sim.TxSpec) {}, "vote by outsider"),
		with(vote("V0", 0, 5), func(s *sim.TxSpec) {}, "bad choice"),
		with(vote("V0", 0, -1), func(s *sim.TxSpec) {}, "negative choice"),
		with(vote("V0", 7, 0), func(s *sim.TxSpec) {}, "unknown proposal"),
		with(vote("V0", 0, 0), func(s *sim.TxSpec) {}, "vote (fails outside the window / before creation)"),
		with(call("W", "contract:1", "", "0"), func(s *sim.TxSpec) {}, "contract reverts"),
		with(call("W", "contract:1", "", "1R"), func(s *sim.TxSpec) {}, "value call into reverting contract"),
		with(call("W", "contract:0", "", "0"), func(s *sim.TxSpec) { s.Gas = 21000 + 100 }, "out of gas"),
		with(call("W", "contract:0", "", "0"), func(s *sim.TxSpec) { s.Gas = 20999 }, "below intrinsic gas"),
		with(deploy("W", "60006000fd", "0"), func(s *sim.TxSpec) {}, "init code reverts"),
		with(deploy("W", "60006000fd", "3R"), func(s *sim.TxSpec) {}, "init code reverts, with value"),
		with(tr("W", "contract:0", "1"), func(s *sim.TxSpec) {}, "plain transfer to contract, gas below intrinsic"),
		with(tr("W", "contract:1", "1R"), func(s *sim.TxSpec) { s.Gas = 60000 }, "plain transfer into reverting contract"),
	}
	return m
}

type c05Case struct {
	// EVMProg: a contract program [gadget, REVERT] of C17's alphabet run in C17's history family EVMFam: every call of
	// the program FAILS after the gadget did its work (value calls, inner frames that touch third parties, CREATE, logs,
	// storage); the node is compared with the reference EVM world, in which a failed transaction leaves nothing behind
	EVMProg []int  `json:"evmProg,omitempty"`
	EVMFam  int    `json:"evmFam,omitempty"`
	Variant string `json:"variant"`
	Ins     []ins  `json:"ins"`
	Lv      int    `json:"lv"`
}

type ins struct {
	Block int `json:"block"` // 0-based
	Pos   int `json:"pos"`   // insert before this position (len = append)
	Tmpl  int `json:"tmpl"`
}

type c05 struct {
	tier  string
	cases []c05Case
	menu  []sim.TxSpec
}

func init() { engine.Register("C05", func() engine.Check { return &c05{} }) }

func (c *c05) ID() string { return "C05" }
func (c *c05) Meta() engine.Meta {
	return engine.Meta{
		Category:  "model_checking",
		LevelName: "number of inserted failing transactions",
		Technique: "exhaustive insertion of failing transactions at every position of a dense history on the real application, twin-replica differential oracle over the complete committed state",
		Rule: "failing CONTRACT programs: for every non-terminal gadget g of C17's alphabet the program [g, REVERT] in two history families - every call of it fails after g did its work (value calls, inner frames touching third parties, CREATE, logs, storage) and must leave exactly what the reference EVM world leaves: nothing; failing menu: 53 templates, one per failure reason x type (signature, chain id, nonce +-1, funds short by 1, gas, price, 2^255 / 2^256-1 amounts, over-long setdoc name / good name with over-long url, proposal whose second option is bad, staking: not a multiple / zero / below minimum / unknown delegatee / amount+fee short / ratio, unstaking: stranger / delegatee / unknown hash / 31-byte hash, withdraw: no record / above claim / non-zero amount, proposal: non-validator / heights / period / options, vote: outsider / bad choice / unknown proposal / outside window, EVM: revert / value into revert / out of gas / below intrinsic / reverting init code with and without value / plain transfers to contracts) " +
			"inserted before every transaction position and at the end of every block of the dense 8-block history (genesis variants g3, g4L with the live stake limiter, g1; thorough adds all ordered PAIRS of templates at every position). " +
			"Replica A (with the insertion) vs replica B (without): the inserted DeliverTx has code != 0 (otherwise the case is counted as not applicable), every other DeliverTx / EndBlock response is equal, and after every commit the COMPLETE state (all accounts, delegatees with stakes, unbonding stakes, rewards, proposals with votes, parameters, contract code and storage) is equal, empty account records aside. " +
			"distinct_nontrivial = cases whose inserted transaction really failed at a position after at least one successful transaction in the same block or before one.",
		Assumptions: []string{
			"a failed transaction may materialise an EMPTY account record (zero balance/nonce, no name/doc/code) for its receiver; such records are not a change of any balance, nonce or document and are ignored; the app hash is therefore not compared",
		},
	}
}

func (c *c05) Prepare(tier string, seed int64) error {
	c.tier = tier
	c.menu = failMenu()
	c.cases = nil
	variants := []string{"g3", "g4L", "g1"}
	for _, v := range variants {
		h := denseHistory(genesisByName(v))
		for b, bl := range h.Blocks {
			for p := 0; p <= len(bl.Txs); p++ {
				for t := range c.menu {
					c.cases = append(c.cases, c05Case{Variant: v, Ins: []ins{{b, p, t}}, Lv: 1})
				}
			}
		}
	}
	gs := c17Gadgets()
	rev := -1
	for i, g := range gs {
		if g.Name == "revert 1 byte" {
			rev = i
		}
	}
	for a, g := range gs {
		if g.Term || rev < 0 {
			continue
		}
		for _, fam := range []int{0, 1} {
			c.cases = append(c.cases, c05Case{EVMProg: []int{a, rev}, EVMFam: fam, Lv: 1})
		}
	}
	if tier == "thorough" {
		h := denseHistory(genesisByName("g3"))
		for b, bl := range h.Blocks {
			for p := 0; p <= len(bl.Txs); p++ {
				for t1 := range c.menu {
					for t2 := range c.menu {
						c.cases = append(c.cases, c05Case{Variant: "g3", Ins: []ins{{b, p, t1}, {b, p, t2}}, Lv: 2})
					}
				}
			}
		}
	}
	return nil
}

func (c *c05) NumCases() int              { return len(c.cases) }
func (c *c05) Level(i int) int            { return c.cases[i].Lv }
func (c *c05) Desc(i int) json.RawMessage { return sim.MustJSON(c.cases[i]) }

func (c *c05) RunDesc(desc json.RawMessage) engine.Result {
	var cs c05Case
	_ = json.Unmarshal(desc, &cs)
	if c.menu == nil {
		c.menu = failMenu()
	}
	if len(cs.EVMProg) > 0 {
		res, findings, _, names, mr := c17Run(c17Case{Prog: cs.EVMProg, Family: cs.EVMFam})
		if mr != nil && mr.Res != nil {
			defer mr.Res.Cleanup()
		}
		if res.Err != "" {
			return res
		}
		res.Violations = nil
		for _, f := range findings {
			if f.Prop != "C17" && f.Prop != "BAL" && f.Prop != "C04" {
				continue
			}
			res.Violations = append(res.Violations, engine.Violation{Property: "C05", Kind: "failed-contract-transaction-left-a-trace:" + f.Kind, Site: "evm-program:" + f.Site,
				Detail: fmt.Sprintf("%s\n program [%s] (every call of it fails) in EVM family %d", f.Detail, strings.Join(names, " ; "), cs.EVMFam), Case: desc})
			break
		}
		res.Count("failing_contract_programs", 1)
		res.Count("inserted_tx_failed", mr.TxFail)
		res.Nontrivial = mr.TxFail > 0
		res.Outcome = "held"
		if len(res.Violations) > 0 {
			res.Outcome = "state-differs"
		}
		res.Sample = nil
		return res
	}
	res := engine.Result{}
	base := denseHistory(genesisByName(cs.Variant))
	ref := reference("c05/"+cs.Variant, base)
	h := base.Clone()
	// insert (all insertions are at the same block/pos in pair cases; keep order)
	marked := map[string]bool{}
	for k := len(cs.Ins) - 1; k >= 0; k-- {
		in := cs.Ins[k]
		t := c.menu[in.Tmpl]
		t.Tag = fmt.Sprintf("INSERTED#%d %s", k, t.Tag)
		marked[t.Tag] = true
		txs := h.Blocks[in.Block].Txs
		txs = append(txs[:in.Pos:in.Pos], append([]sim.TxSpec{t}, txs[in.Pos:]...)...)
		h.Blocks[in.Block].Txs = txs
	}
	a := sim.Run(tmpRoot(), h, nil)
	defer a.Cleanup()
	if a.Err != "" {
		res.Err = a.Err
		return res
	}
	// Remove the inserted calls from A's log; they must have failed.
	var la []string
	allFailed := true
	reasons := []string{}
	for _, r := range a.Chain.Log {
		if r.Inject || r.Kind == "Info" {
			continue
		}
		if r.Kind == "DeliverTx" && strings.HasPrefix(r.Req, "INSERTED#") {
			if r.Panic != "" {
				res.Violations = append(res.Violations, engine.Violation{Property: "C05", Kind: "panic-in-delivertx", Site: tmplSite(r.Req), Detail: r.Req + ": " + r.Panic, Case: desc})
				return res
			}
			if r.Code == 0 {
				allFailed = false
			} else {
				reasons = append(reasons, firstLineOf(r.Log))
			}
			continue
		}
		if r.Kind == "Commit" && r.Panic == "" {
			continue // the app hash is not compared (see assumptions): the complete state is
		}
		la = append(la, stripIdx(fmt.Sprintf("%s@%d#%d %s", r.Kind, r.H, r.Idx, r.Resp)))
	}
	res.Transitions = len(a.Chain.Log)
	for _, st := range a.States {
		res.States = append(res.States, st.Hash())
	}
	in0 := cs.Ins[0]
	tname := c.menu[in0.Tmpl].Tag
	if !allFailed {
		res.Count("inserted_tx_succeeded(not a C05 case)", 1)
		res.Outcome = "n/a"
		return res
	}
	res.Count("inserted_tx_failed", len(cs.Ins))
	res.Count("failed:"+tname, 1)
	res.Nontrivial = true
	res.Outcome = "held"
	var lb []string
	for _, l := range ref.Log {
		if strings.HasPrefix(l, "Commit@") && !strings.Contains(l, "PANIC") {
			continue
		}
		lb = append(lb, stripIdx(l))
	}
	site := tmplSite(tname)
	if i, x, y := firstDiff(la, lb); i >= 0 {
		res.Outcome = "later-result-differs"
		res.Violations = append(res.Violations, engine.Violation{Property: "C05", Kind: "later-result-differs", Site: site,
			Detail: fmt.Sprintf("after the failed <%s> (block %d pos %d, reason %q) a later consensus response differs:\n with: %s\n without: %s", tname, in0.Block+1, in0.Pos, strings.Join(reasons, " | "), x, y), Case: desc})
		return res
	}
	for i := range a.States {
		if i >= len(ref.States) {
			break
		}
		na, nb := normState(a.States[i]), normState(ref.States[i])
		if na.JSON() != nb.JSON() {
			d := sim.DiffStates(na, nb)
			res.Outcome = "state-differs"
			comp := "?"
			if len(d) > 0 {
				comp = strings.SplitN(strings.TrimPrefix(d[0], "/"), "/", 2)[0]
			}
			if len(d) > 6 {
				d = d[:6]
			}
			res.Violations = append(res.Violations, engine.Violation{Property: "C05", Kind: "state-differs:" + comp, Site: site,
				Detail: fmt.Sprintf("failed <%s> (block %d pos %d, reason %q) changed the state committed at height %d:\n %s", tname, in0.Block+1, in0.Pos, strings.Join(reasons, " | "), i+1, strings.Join(d, "\n ")), Case: desc})
			return res
		}
	}
	if in0.Tmpl%7 == 0 && in0.Pos == 1 && in0.Block == 2 {
		res.Sample = sim.MustJSON(map[string]interface{}{"variant": cs.Variant, "inserted": tname, "block": in0.Block + 1, "pos": in0.Pos, "reason": reasons, "history_with_insertion": describeBlocks(h)})
	}
	return res
}

func firstLineOf(s string) string {
	s = strings.ReplaceAll(s, "\n\t", " / ")
	if len(s) > 160 {
		s = s[:160]
	}
	return s
}

// tmplSite: the template's failure reason (text in the last [...]) is the fingerprint site.
func tmplSite(tag string) string {
	if i := strings.LastIndexByte(tag, '['); i >= 0 {
		return strings.TrimSuffix(tag[i+1:], "]")
	}
	return tag
}

func (c *c05) Guards(a *engine.Agg, complete bool) []string {
	var g []string
	if !complete {
		return nil
	}
	for _, t := range failMenu() {
		if a.Counters["failed:"+t.Tag] == 0 {
			g = append(g, "template never failed anywhere: "+t.Tag)
		}
	}
	return g
}
