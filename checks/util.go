package checks

import (
	"fmt"
	"os"
	"path/filepath"
	"sync"
)

var (
	tmpOnce sync.Once
	tmpDir  string
)

// tmpRoot returns a per-process scratch directory on tmpfs; removed by CleanupTmp / at process exit by the worker.
func tmpRoot() string {
	tmpOnce.Do(func() {
		base := "/dev/shm"
		if st, err := os.Stat(base); err != nil || !st.IsDir() {
			base = os.TempDir()
		}
		tmpDir = filepath.Join(base, fmt.Sprintf("rigomc-%d", os.Getpid()))
		_ = os.MkdirAll(tmpDir, 0o755)
	})
	return tmpDir
}

func CleanupTmp() {
	if tmpDir != "" {
		_ = os.RemoveAll(tmpDir)
	}
}
