package checks

// C09 — no externally supplied input can crash the node.  Bounded-exhaustive input enumeration:
// every byte string up to length 2, every prefix / single-bit flip / byte substitution of valid
// encodings of all 8 transaction types, valid (re-signed) envelopes with every hostile field value of
// a per-field menu, and a grid of Query requests — through CheckTx and DeliverTx at several
// application states.  Oracle: a response is returned (no panic) and the node stays usable.

import (
	"encoding/hex"
	"encoding/json"
	"fmt"
	"math/big"
	"sort"
	"strings"

	"github.com/holiman/uint256"
	ctrlertypes "github.com/rigochain/rigo-go/ctrlers/types"
	tmtypes "github.com/tendermint/tendermint/types"

	"verif/mc/engine"
	"verif/mc/sim"
)

// c09DelayedOptions: governance option documents that PASS validation; the proposal is voted through and applied,
// and the node must survive the application and the following blocks (a panic in BeginBlock/EndBlock/Commit that
// is the delayed consequence of accepted transactions).
func c09DelayedOptions() []string {
	return []string{
		`{"gasPrice":"4"}`,
		`{"maxValidatorCnt":"-1"}`,
		`{"maxValidatorCnt":"1"}`,
		`{"maxValidatorCnt":"9223372036854775807"}`,
		`{"minValidatorStake":"1"}`,
		`{"minValidatorStake":"115792089237316195423570985008687907853269984665640564039457584007913129639935"}`,
		`{"minValidatorStake":"9223372036854775808000000000000000000"}`,
		`{"minValidatorStake":"18446744073709551615000000000000000000"}`,
		`{"minDelegatorStake":"9223372036854775808000000000000000000"}`,
		`{"rewardPerPower":"115792089237316195423570985008687907853269984665640564039457584007913129639935"}`,
		`{"lazyRewardBlocks":"-5"}`,
		`{"lazyRewardBlocks":"9223372036854775807"}`,
		`{"lazyApplyingBlocks":"-1"}`,
		`{"gasPrice":"115792089237316195423570985008687907853269984665640564039457584007913129639935"}`,
		`{"minTrxGas":"18446744073709551615"}`,
		`{"maxTrxGas":"1"}`,
		`{"minVotingPeriodBlocks":"-1","maxVotingPeriodBlocks":"-1"}`,
		`{"minSelfStakeRatio":"-100"}`,
		`{"minSelfStakeRatio":"1000"}`,
		`{"maxUpdatableStakeRatio":"-1","maxIndividualStakeRatio":"-1"}`,
		`{"slashRatio":"-50"}`,
		`{"slashRatio":"1000"}`,
		`{"signedBlocksWindow":"-1"}`,
		`{"signedBlocksWindow":"9223372036854775807","minSignedBlocks":"9223372036854775807"}`,
		`{"minSignedBlocks":"-9223372036854775808"}`,
		`{"version":"-1"}`,
		`{}`,
		`{"gasPrice":"4""}`,
		`{"unknownField":"1"}`,
	}
}

type c09Case struct {
	State  string `json:"state"`  // fresh | dense4
	Chan   string `json:"chan"`   // check | deliver | query
	Gen    string `json:"gen"`    // short | mutate | hostile | hostile2 | query
	Shard  int    `json:"shard"`  // shard of the generator
	Shards int    `json:"shards"` // out of
	Tmpl   int    `json:"tmpl"`   // base template index (mutate / hostile)
	Only   int    `json:"only"`   // replay: only the input with this index (-1 = all)
	Lv     int    `json:"lv"`
}

type c09 struct {
	tier  string
	cases []c09Case
}

func init() { engine.Register("C09", func() engine.Check { return &c09{} }) }

func (c *c09) ID() string { return "C09" }
func (c *c09) Meta() engine.Meta {
	return engine.Meta{
		Category:         "model_checking",
		LevelName:        "1 = single mutation / single hostile field, 2 = pairs of hostile fields",
		DeathIsViolation: true,
		Technique:        "bounded-exhaustive enumeration of an input grammar against the real application at several states; oracle = no panic + liveness probe",
		Rule: "inputs: (a) every byte string of length <= 2; (b) for a valid signed encoding of each of 13 base transactions (all 8 types, contract deploy and call, transfer to a contract): every prefix, every single-bit flip, every byte replaced by 00/7f/80/ff; (c) valid envelopes, RE-SIGNED by the sender, with every value of a per-field hostile menu (unknown / empty / 19 / 21 / 33 / 64-byte addresses, amounts 0 / 2^255 / 2^256-1 and, from a sender that can afford them, 2^249 and the power-arithmetic limits (2^60-1, 2^60, 2^63-1, 2^63, 2^64-1, 2^64, 2^64+5 RIGO), gas 0 / 2^63 / 2^64-1, prices, nonce 2^64-1, type 0 / 9 / -1 / 2^31-1, nil payload, payload of another type, 0 / 31 / 33-byte hashes, heights 0 / -1 / 2^63-1 / overflowing sums, option documents that are not JSON / deeply nested / wrong types / negative / huge numbers, empty option list, choice -1 / 2^31-1, 10 kB strings and code) — all single fields and all ordered pairs (thorough also at the fresh state, plus every pair of byte positions of each valid encoding replaced by 00/ff); (d) Query: 12 paths x 11 data shapes x 8 heights, plus vm_call with well-formed (from,to) over 3 senders x 14 targets (creation, EOA, unknown, two contracts, the nine precompiles) x 5 payloads x 7 heights. " +
			"Delivered through CheckTx and, inside a block, through DeliverTx, at a fresh chain (after 2 blocks) and after 4 blocks of the dense history; the mempool-check and query inputs additionally at a node that was RESTARTED after those 4 blocks and has not executed a block since. vm_call runs with the RPC environment Tendermint installs in production (stub block store). " +
			"(e) delayed consequences: 29 governance option documents (negative, zero, maximal and overflowing values of every parameter, empty, unknown fields) are proposed, voted through and applied, followed by 6 busy blocks (staking, unstaking, evidence, missed signatures, withdrawals, a further proposal); and every hostile proposal SHAPE (option type on-chain / off-chain / unknown, no options, empty option, heights) delivered by a validator and followed by votes and 12 blocks. (f) every single deviation of the four shared history families (incl. evidence, missed signatures, proposer-less blocks): every ABCI call must return. Oracle: every call returns (a recovered panic or a dead worker process is a violation); after each batch the open block ends and commits, and a well-formed transfer in a following block succeeds. " +
			"evaluations = input shards, counters.inputs = individual inputs; distinct_nontrivial = shards in which at least one input was ACCEPTED (code 0) and one rejected.",
		Assumptions: []string{
			"the claim is the enumerated grammar, not all byte strings",
		},
	}
}

// ---- base transactions ----

func c09Bases() []sim.TxSpec {
	return []sim.TxSpec{
		tr("U0", "U1", "1"),
		stk("U1", "V0", "1R"),
		unstk("V2", "V2", "V2", 0),
		wdr("V0", "1"),
		prop("V0", 1, 1, 1, `{"gasPrice":"4"}`, `{"slashRatio":"40"}`),
		vote("V1", 0, 0),
		deploy("U0", counterInit, "0"),
		call("U1", "contract:0", "", "0"),
		setdoc("U1", "bob", "http://b"),
		with(tr("W", "contract:0", "0"), func(s *sim.TxSpec) { s.Gas = 60000 }, "to contract"),
		// a sender that can afford amounts at the limits of the power arithmetic (2^60 .. 2^64 RIGO and beyond)
		stk("R", "R", "2R"),
		stk("R", "V1", "1R"),
		call("R", "contract:0", "", "0"),
	}
}

type hostile struct {
	Name string
	F    func(tx *ctrlertypes.Trx)
}

func u256hex(s string) *uint256.Int {
	b, _ := new(big.Int).SetString(s, 10)
	return sim.U256(b)
}

func c09Hostiles() []hostile {
	big10k := strings.Repeat("A", 10240)
	two255 := sim.U256(sim.ParseAmount("2^255", nil, nil))
	max := sim.U256(sim.ParseAmount("2^256-1", nil, nil))
	hs := []hostile{
		{"from=unknown-account", func(t *ctrlertypes.Trx) { t.From = sim.W("nobody-has-this").Addr }},
		{"from=empty", func(t *ctrlertypes.Trx) { t.From = nil }},
		{"from=19bytes", func(t *ctrlertypes.Trx) { t.From = append(make([]byte, 0, 19), sim.W("U0").Addr[:19]...) }},
		{"from=21bytes", func(t *ctrlertypes.Trx) { t.From = append(append([]byte{}, t.From...), 0) }},
		{"to=nil", func(t *ctrlertypes.Trx) { t.To = nil }},
		{"to=19bytes", func(t *ctrlertypes.Trx) { t.To = make([]byte, 19) }},
		{"to=21bytes", func(t *ctrlertypes.Trx) { t.To = make([]byte, 21) }},
		{"to=33bytes", func(t *ctrlertypes.Trx) { t.To = make([]byte, 33) }},
		{"to=64bytes", func(t *ctrlertypes.Trx) { t.To = make([]byte, 64) }},
		{"to=zero", func(t *ctrlertypes.Trx) { t.To = make([]byte, 20) }},
		{"to=self", func(t *ctrlertypes.Trx) { t.To = t.From }},
		{"to=unknown", func(t *ctrlertypes.Trx) { t.To = sim.W("nobody-has-this").Addr }},
		{"to=precompile1", func(t *ctrlertypes.Trx) { t.To = append(make([]byte, 19), 1) }},
		{"amount=0", func(t *ctrlertypes.Trx) { t.Amount = uint256.NewInt(0) }},
		{"amount=1R", func(t *ctrlertypes.Trx) { t.Amount = sim.U256(sim.Rigo(1)) }},
		{"amount=2^255", func(t *ctrlertypes.Trx) { t.Amount = two255 }},
		{"amount=2^256-1", func(t *ctrlertypes.Trx) { t.Amount = max }},
		{"amount=2^249", func(t *ctrlertypes.Trx) { t.Amount = sim.U256(sim.ParseAmount("2^249", nil, nil)) }},
		{"amount=(2^60-1)R", func(t *ctrlertypes.Trx) { t.Amount = sim.U256(sim.ParseAmount("2^60-1R", nil, nil)) }},
		{"amount=2^60R", func(t *ctrlertypes.Trx) { t.Amount = sim.U256(sim.ParseAmount("2^60R", nil, nil)) }},
		{"amount=(2^63-1)R", func(t *ctrlertypes.Trx) { t.Amount = sim.U256(sim.ParseAmount("2^63-1R", nil, nil)) }},
		{"amount=2^63R", func(t *ctrlertypes.Trx) { t.Amount = sim.U256(sim.ParseAmount("2^63R", nil, nil)) }},
		{"amount=(2^64-1)R", func(t *ctrlertypes.Trx) { t.Amount = sim.U256(sim.ParseAmount("2^64-1R", nil, nil)) }},
		{"amount=2^64R", func(t *ctrlertypes.Trx) { t.Amount = sim.U256(sim.ParseAmount("2^64R", nil, nil)) }},
		{"amount=(2^64+5)R", func(t *ctrlertypes.Trx) { t.Amount = sim.U256(sim.ParseAmount("2^64+5R", nil, nil)) }},
		{"gas=0", func(t *ctrlertypes.Trx) { t.Gas = 0 }},
		{"gas=2^63", func(t *ctrlertypes.Trx) { t.Gas = 1 << 63 }},
		{"gas=2^64-1", func(t *ctrlertypes.Trx) { t.Gas = ^uint64(0) }},
		{"gas=30M", func(t *ctrlertypes.Trx) { t.Gas = 30_000_000 }},
		{"price=0", func(t *ctrlertypes.Trx) { t.GasPrice = uint256.NewInt(0) }},
		{"price=2^255", func(t *ctrlertypes.Trx) { t.GasPrice = two255 }},
		{"price=2^256-1", func(t *ctrlertypes.Trx) { t.GasPrice = max }},
		{"nonce=2^64-1", func(t *ctrlertypes.Trx) { t.Nonce = ^uint64(0) }},
		{"time=-1", func(t *ctrlertypes.Trx) { t.Time = -1 }},
		{"version=2^32-1", func(t *ctrlertypes.Trx) { t.Version = ^uint32(0) }},
		{"type=0", func(t *ctrlertypes.Trx) { t.Type = 0 }},
		{"type=9", func(t *ctrlertypes.Trx) { t.Type = 9 }},
		{"type=-1", func(t *ctrlertypes.Trx) { t.Type = -1 }},
		{"type=2^31-1", func(t *ctrlertypes.Trx) { t.Type = 1<<31 - 1 }},
		{"payload=nil", func(t *ctrlertypes.Trx) { t.Payload = nil }},
	}
	for ty := int32(1); ty <= 8; ty++ {
		ty := ty
		hs = append(hs, hostile{fmt.Sprintf("type=%d(payload kept)", ty), func(t *ctrlertypes.Trx) { t.Type = ty }})
	}
	// payload-specific
	hs = append(hs,
		hostile{"unstake.hash=nil", func(t *ctrlertypes.Trx) {
			t.Type = ctrlertypes.TRX_UNSTAKING
			t.Payload = &ctrlertypes.TrxPayloadUnstaking{}
		}},
		hostile{"unstake.hash=31", func(t *ctrlertypes.Trx) {
			t.Type = ctrlertypes.TRX_UNSTAKING
			t.Payload = &ctrlertypes.TrxPayloadUnstaking{TxHash: make([]byte, 31)}
		}},
		hostile{"unstake.hash=33", func(t *ctrlertypes.Trx) {
			t.Type = ctrlertypes.TRX_UNSTAKING
			t.Payload = &ctrlertypes.TrxPayloadUnstaking{TxHash: make([]byte, 33)}
		}},
		hostile{"unstake.hash=zero32", func(t *ctrlertypes.Trx) {
			t.Type = ctrlertypes.TRX_UNSTAKING
			t.Payload = &ctrlertypes.TrxPayloadUnstaking{TxHash: make([]byte, 32)}
		}},
		hostile{"withdraw.req=0", func(t *ctrlertypes.Trx) {
			t.Type = ctrlertypes.TRX_WITHDRAW
			t.Payload = &ctrlertypes.TrxPayloadWithdraw{ReqAmt: uint256.NewInt(0)}
		}},
		hostile{"withdraw.req=2^256-1", func(t *ctrlertypes.Trx) {
			t.Type = ctrlertypes.TRX_WITHDRAW
			t.Payload = &ctrlertypes.TrxPayloadWithdraw{ReqAmt: max}
		}},
		hostile{"vote.hash=nil", func(t *ctrlertypes.Trx) { t.Type = ctrlertypes.TRX_VOTING; t.Payload = &ctrlertypes.TrxPayloadVoting{} }},
		hostile{"vote.hash=31", func(t *ctrlertypes.Trx) {
			t.Type = ctrlertypes.TRX_VOTING
			t.Payload = &ctrlertypes.TrxPayloadVoting{TxHash: make([]byte, 31)}
		}},
		hostile{"vote.choice=-1", func(t *ctrlertypes.Trx) {
			if p, ok := t.Payload.(*ctrlertypes.TrxPayloadVoting); ok {
				p.Choice = -1
			}
		}},
		hostile{"vote.choice=2^31-1", func(t *ctrlertypes.Trx) {
			if p, ok := t.Payload.(*ctrlertypes.TrxPayloadVoting); ok {
				p.Choice = 1<<31 - 1
			}
		}},
		hostile{"contract.data=empty", func(t *ctrlertypes.Trx) {
			t.Type = ctrlertypes.TRX_CONTRACT
			t.Payload = &ctrlertypes.TrxPayloadContract{}
		}},
		hostile{"contract.data=10kB-FE", func(t *ctrlertypes.Trx) {
			t.Type = ctrlertypes.TRX_CONTRACT
			t.Payload = &ctrlertypes.TrxPayloadContract{Data: []byte(strings.Repeat("\xfe", 10240))}
		}},
		hostile{"contract.data=selfdestruct-init", func(t *ctrlertypes.Trx) {
			t.Type = ctrlertypes.TRX_CONTRACT
			t.Payload = &ctrlertypes.TrxPayloadContract{Data: []byte{0x33, 0xff}}
		}},
		hostile{"setdoc=10kB", func(t *ctrlertypes.Trx) {
			t.Type = ctrlertypes.TRX_SETDOC
			t.Payload = &ctrlertypes.TrxPayloadSetDoc{Name: big10k, URL: big10k}
		}},
		hostile{"setdoc=empty", func(t *ctrlertypes.Trx) { t.Type = ctrlertypes.TRX_SETDOC; t.Payload = &ctrlertypes.TrxPayloadSetDoc{} }},
	)
	pp := func(name string, f func(p *ctrlertypes.TrxPayloadProposal)) hostile {
		return hostile{"proposal." + name, func(t *ctrlertypes.Trx) {
			if p, ok := t.Payload.(*ctrlertypes.TrxPayloadProposal); ok {
				f(p)
			}
		}}
	}
	hs = append(hs,
		pp("start=0", func(p *ctrlertypes.TrxPayloadProposal) { p.StartVotingHeight = 0 }),
		pp("start=-1", func(p *ctrlertypes.TrxPayloadProposal) { p.StartVotingHeight = -1 }),
		pp("start=2^63-1", func(p *ctrlertypes.TrxPayloadProposal) { p.StartVotingHeight = 1<<63 - 1 }),
		pp("period=-1", func(p *ctrlertypes.TrxPayloadProposal) { p.VotingPeriodBlocks = -1 }),
		pp("period=2^63-1", func(p *ctrlertypes.TrxPayloadProposal) { p.VotingPeriodBlocks = 1<<63 - 1 }),
		pp("apply=0", func(p *ctrlertypes.TrxPayloadProposal) { p.ApplyingHeight = 0 }),
		pp("apply=-1", func(p *ctrlertypes.TrxPayloadProposal) { p.ApplyingHeight = -1 }),
		pp("apply=2^63-1", func(p *ctrlertypes.TrxPayloadProposal) { p.ApplyingHeight = 1<<63 - 1 }),
		pp("opttype=0", func(p *ctrlertypes.TrxPayloadProposal) { p.OptType = 0 }),
		pp("opttype=-1", func(p *ctrlertypes.TrxPayloadProposal) { p.OptType = -1 }),
		pp("options=none", func(p *ctrlertypes.TrxPayloadProposal) { p.Options = nil }),
		pp("options=[empty]", func(p *ctrlertypes.TrxPayloadProposal) { p.Options = [][]byte{{}} }),
		pp("options=notjson", func(p *ctrlertypes.TrxPayloadProposal) { p.Options = [][]byte{[]byte("{{{")} }),
		pp("options=nested", func(p *ctrlertypes.TrxPayloadProposal) {
			p.Options = [][]byte{[]byte(strings.Repeat(`{"a":`, 2000) + "1" + strings.Repeat("}", 2000))}
		}),
		pp("options=wrongtypes", func(p *ctrlertypes.TrxPayloadProposal) {
			p.Options = [][]byte{[]byte(`{"gasPrice":5,"maxValidatorCnt":"x","minTrxGas":[1]}`)}
		}),
		pp("options=negative", func(p *ctrlertypes.TrxPayloadProposal) {
			p.Options = [][]byte{[]byte(`{"gasPrice":"-5","maxValidatorCnt":"-1","slashRatio":"-50","lazyRewardBlocks":"-3"}`)}
		}),
		pp("options=huge", func(p *ctrlertypes.TrxPayloadProposal) {
			p.Options = [][]byte{[]byte(`{"gasPrice":"` + strings.Repeat("9", 100) + `","maxValidatorCnt":"99999999999999999999999"}`)}
		}),
		pp("options=null", func(p *ctrlertypes.TrxPayloadProposal) { p.Options = [][]byte{[]byte(`null`)} }),
		pp("options=hotfix-suffix", func(p *ctrlertypes.TrxPayloadProposal) { p.Options = [][]byte{[]byte(`{"gasPrice":"4""}`)} }),
		pp("options=valid-zero-everything", func(p *ctrlertypes.TrxPayloadProposal) {
			p.Options = [][]byte{[]byte(`{"maxValidatorCnt":"0","gasPrice":"0","signedBlocksWindow":"0"}`)}
		}),
		pp("options=100", func(p *ctrlertypes.TrxPayloadProposal) {
			for i := 0; i < 100; i++ {
				p.Options = append(p.Options, []byte(`{"slashRatio":"10"}`))
			}
		}),
	)
	return hs
}

// ---- input generators ----

type c09Input struct {
	Tag string
	Raw []byte
	// for re-signed envelopes the bytes are produced lazily against the live chain (nonce, price)
	Build func(ch *sim.Chain) []byte
	// query inputs
	QPath   string
	QData   []byte
	QHeight int64
}

func tmHash(bz []byte) []byte { return tmtypes.Tx(bz).Hash() }

func encodeTx(tx *ctrlertypes.Trx) (bz []byte) {
	defer func() {
		if r := recover(); r != nil {
			bz = nil // the harness could not even encode it; not an input
		}
	}()
	b, xerr := tx.Encode()
	if xerr != nil {
		return nil
	}
	return b
}

func signSafe(w *sim.Wallet, tx *ctrlertypes.Trx, chain string) (ok bool) {
	defer func() {
		if r := recover(); r != nil {
			ok = false
		}
	}()
	w.Sign(tx, chain)
	return true
}

func (c *c09) inputs(cs c09Case) []c09Input {
	var in []c09Input
	switch cs.Gen {
	case "short":
		in = append(in, c09Input{Tag: "empty", Raw: []byte{}})
		for a := 0; a < 256; a++ {
			in = append(in, c09Input{Tag: fmt.Sprintf("%02x", a), Raw: []byte{byte(a)}})
		}
		for a := 0; a < 256; a++ {
			for b := 0; b < 256; b++ {
				in = append(in, c09Input{Tag: fmt.Sprintf("%02x%02x", a, b), Raw: []byte{byte(a), byte(b)}})
			}
		}
	case "mutate":
		base := c09Bases()[cs.Tmpl]
		in = append(in, c09Input{Tag: "mutations-of:" + base.String(), Build: nil})
		// marker entry 0 is replaced in run(): mutations need the live chain to build the valid encoding
	case "hostile", "hostile2":
		base := c09Bases()[cs.Tmpl]
		hs := c09Hostiles()
		mk := func(name string, fs ...func(*ctrlertypes.Trx)) c09Input {
			return c09Input{Tag: base.String() + " :: " + name, Build: func(ch *sim.Chain) []byte {
				tx := ch.Build(base, ch.EnvFor(base, nil))
				signer := sim.W(base.From)
				for _, f := range fs {
					f(tx)
				}
				tx.Sig = nil
				if !signSafe(signer, tx, ch.Gen.ChainID) {
					return nil
				}
				return encodeTx(tx)
			}}
		}
		if cs.Gen == "hostile" {
			for _, h := range hs {
				in = append(in, mk(h.Name, h.F))
			}
		} else {
			for i, h1 := range hs {
				for j, h2 := range hs {
					if i != j {
						in = append(in, mk(h1.Name+" + "+h2.Name, h1.F, h2.F))
					}
				}
			}
		}
	case "query":
		paths := []string{"account", "stakes", "stakes/total_power", "stakes/voting_power", "delegatee", "reward", "proposal", "gov_params", "vm_call", "", "unknown/path", "account/"}
		u0 := sim.W("U0").Addr
		datas := [][]byte{nil, {}, {1}, make([]byte, 19), u0, make([]byte, 21), make([]byte, 32), make([]byte, 39), append(append([]byte{}, u0...), make([]byte, 20)...), make([]byte, 41), make([]byte, 1000)}
		heights := []int64{-1 << 63, -1, 0, 1, 2, 1000000, 1<<63 - 1, -2}
		// vm_call with well-formed (from,to) and hostile targets / call data: the EVM runs inside the query
		targets := map[string][]byte{"zero(create)": make([]byte, 20), "EOA": sim.W("U1").Addr, "unknown": sim.W("nobody-has-this").Addr,
			"contract0": sim.CreateAddress("U0", 0), "contract1": sim.CreateAddress("W", 0)}
		for i := 1; i <= 9; i++ {
			targets[fmt.Sprintf("precompile%d", i)] = append(make([]byte, 19), byte(i))
		}
		var tnames []string
		for k := range targets {
			tnames = append(tnames, k)
		}
		sort.Strings(tnames)
		payloads := [][]byte{nil, {0xde, 0xad, 0xbe, 0xef}, make([]byte, 1024), []byte(strings.Repeat("\xff", 4096)), hx2("6000600060006000600073" + strings.Repeat("00", 20) + "5af1")}
		for _, from := range [][]byte{u0, sim.W("nobody-has-this").Addr, make([]byte, 20)} {
			for _, tn := range tnames {
				for pi, pl := range payloads {
					for _, h := range []int64{0, 1, 2, 3, 4, 1000000, -1} {
						d := append(append(append([]byte{}, from...), targets[tn]...), pl...)
						in = append(in, c09Input{Tag: fmt.Sprintf("query vm_call from %X to %s payload#%d(%d bytes) height %d", from[:3], tn, pi, len(pl), h), QPath: "vm_call", QData: d, QHeight: h})
					}
				}
			}
		}
		for _, p := range paths {
			for di, d := range datas {
				for _, h := range heights {
					in = append(in, c09Input{Tag: fmt.Sprintf("query %q data#%d(%d bytes) height %d", p, di, len(d), h), QPath: p, QData: d, QHeight: h})
				}
			}
		}
	}
	return in
}

func mutationsOf(valid []byte) []c09Input {
	var in []c09Input
	for n := 0; n < len(valid); n++ {
		in = append(in, c09Input{Tag: fmt.Sprintf("prefix[%d]", n), Raw: append([]byte{}, valid[:n]...)})
	}
	for i := range valid {
		for b := 0; b < 8; b++ {
			m := append([]byte{}, valid...)
			m[i] ^= 1 << b
			in = append(in, c09Input{Tag: fmt.Sprintf("bitflip[%d.%d]", i, b), Raw: m})
		}
		for _, v := range []byte{0x00, 0x7f, 0x80, 0xff} {
			if valid[i] != v {
				m := append([]byte{}, valid...)
				m[i] = v
				in = append(in, c09Input{Tag: fmt.Sprintf("subst[%d=%02x]", i, v), Raw: m})
			}
		}
	}
	in = append(in, c09Input{Tag: "valid+trailing", Raw: append(append([]byte{}, valid...), 0x00, 0xff, 0x7f)})
	in = append(in, c09Input{Tag: "valid", Raw: valid})
	return in
}

func (c *c09) Prepare(tier string, seed int64) error {
	c.tier = tier
	c.cases = nil
	nb := len(c09Bases())
	for _, st := range []string{"fresh", "dense4"} {
		for _, ch := range []string{"check", "deliver"} {
			{
				for s := 0; s < 8; s++ {
					c.cases = append(c.cases, c09Case{State: st, Chan: ch, Gen: "short", Shard: s, Shards: 8, Only: -1, Lv: 1})
				}
			}
			for t := 0; t < nb; t++ {
				c.cases = append(c.cases, c09Case{State: st, Chan: ch, Gen: "mutate", Tmpl: t, Shards: 1, Only: -1, Lv: 1})
				c.cases = append(c.cases, c09Case{State: st, Chan: ch, Gen: "hostile", Tmpl: t, Shards: 1, Only: -1, Lv: 1})
			}
		}
		c.cases = append(c.cases, c09Case{State: st, Chan: "query", Gen: "query", Shards: 1, Only: -1, Lv: 1})
	}
	// a node that was just restarted and has not yet executed a block: mempool checks and queries arrive before the first
	// BeginBlock (which is what refills the in-memory helpers)
	for t := 0; t < nb; t++ {
		c.cases = append(c.cases, c09Case{State: "dense4+restart", Chan: "check", Gen: "mutate", Tmpl: t, Shards: 1, Only: -1, Lv: 1})
		c.cases = append(c.cases, c09Case{State: "dense4+restart", Chan: "check", Gen: "hostile", Tmpl: t, Shards: 1, Only: -1, Lv: 1})
	}
	c.cases = append(c.cases, c09Case{State: "dense4+restart", Chan: "query", Gen: "query", Shards: 1, Only: -1, Lv: 1})
	for o := range c09DelayedOptions() {
		c.cases = append(c.cases, c09Case{State: "fresh", Chan: "deliver", Gen: "delayed", Tmpl: o, Shards: 1, Only: -1, Lv: 1})
	}
	// delayed consequences of hostile PROPOSAL SHAPES (option type, option list, heights): index 1000+k = k-th proposal.* hostile
	k := 0
	for _, hm := range c09Hostiles() {
		if strings.HasPrefix(hm.Name, "proposal.") {
			c.cases = append(c.cases, c09Case{State: "fresh", Chan: "deliver", Gen: "delayed", Tmpl: 1000 + k, Shards: 1, Only: -1, Lv: 1})
			k++
		}
	}
	// histories: every single deviation of the shared history families; ANY panicking ABCI call is a violation
	for fi, f := range sharedFamilies() {
		h := f.Base()
		ss := historySlotsN(h, f.Menu, f.WithEnv, 1, true)
		sets, _ := enumDevs(ss.sizes(), 1, 2, nil)
		const per = 40
		for sh := 0; sh*per < len(sets); sh++ {
			c.cases = append(c.cases, c09Case{State: fmt.Sprint(fi), Chan: "deliver", Gen: "histories", Shard: sh, Shards: per, Only: -1, Lv: 1})
		}
	}
	states2 := []string{"dense4"}
	if tier == "thorough" {
		states2 = []string{"dense4", "fresh"}
	}
	for _, st := range states2 {
		for _, ch := range []string{"check", "deliver"} {
			for t := 0; t < nb; t++ {
				for s := 0; s < 4; s++ {
					c.cases = append(c.cases, c09Case{State: st, Chan: ch, Gen: "hostile2", Tmpl: t, Shard: s, Shards: 4, Only: -1, Lv: 2})
				}
				if tier == "thorough" {
					for s := 0; s < 8; s++ {
						c.cases = append(c.cases, c09Case{State: st, Chan: ch, Gen: "mutate2", Tmpl: t, Shard: s, Shards: 8, Only: -1, Lv: 2})
					}
				}
			}
		}
	}
	return nil
}

func (c *c09) NumCases() int              { return len(c.cases) }
func (c *c09) Level(i int) int            { return c.cases[i].Lv }
func (c *c09) Desc(i int) json.RawMessage { return sim.MustJSON(c.cases[i]) }

func c09Genesis() *sim.Genesis {
	g := genesis3()
	g.Holders["L"] = "1000R" // the liveness prober
	g.Holders["R"] = "2^250" // can afford every amount below 2^250
	return g
}

func (c *c09) prepareChain(state string) (*sim.RunResult, error) {
	h := denseHistory(c09Genesis())
	n := 2
	restart := strings.HasSuffix(state, "+restart")
	state = strings.TrimSuffix(state, "+restart")
	if state == "dense4" {
		n = 4
	}
	h.Blocks = h.Blocks[:n]
	if state == "fresh" {
		h.Blocks = []sim.Block{blk(), blk()}
	}
	r := sim.Run(tmpRoot(), h, &sim.Hooks{NoStates: true})
	if r.Err != "" || r.Chain.Dead {
		return r, fmt.Errorf("prepare failed: %s %s", r.Err, r.Chain.DeadReason)
	}
	if restart {
		nd := sim.NewDir(tmpRoot(), "c09restart")
		r.Dirs = append(r.Dirs, nd)
		n, err := r.Chain.Reopen(nd, true)
		if err != nil {
			return r, fmt.Errorf("restart failed: %v", err)
		}
		n.Log = r.Chain.Log
		r.Chain = n
		n.Info()
	}
	r.Chain.InstallRPCEnv()
	return r, nil
}

func (c *c09) RunDesc(desc json.RawMessage) engine.Result {
	var cs c09Case
	cs.Only = -1
	_ = json.Unmarshal(desc, &cs)
	if cs.Gen == "delayed" {
		return c.runDelayed(cs, desc)
	}
	if cs.Gen == "histories" {
		return c.runHistories(cs, desc)
	}
	res := engine.Result{}
	r, err := c.prepareChain(cs.State)
	if err != nil {
		res.Err = err.Error()
		return res
	}
	defer func() { r.Cleanup() }()
	ch := r.Chain
	in := c.inputs(cs)
	if cs.Gen == "mutate" || cs.Gen == "mutate2" {
		base := c09Bases()[cs.Tmpl]
		tx := ch.Build(base, ch.EnvFor(base, nil))
		valid := encodeTx(tx)
		if cs.Gen == "mutate" {
			in = mutationsOf(valid)
		} else {
			// every pair of positions, each replaced by 00 or ff
			for i := 0; i < len(valid); i++ {
				for j := i + 1; j < len(valid); j++ {
					for _, a := range []byte{0x00, 0xff} {
						for _, b := range []byte{0x00, 0xff} {
							m := append([]byte{}, valid...)
							m[i], m[j] = a, b
							in = append(in, c09Input{Tag: fmt.Sprintf("subst2[%d=%02x,%d=%02x]", i, a, j, b), Raw: m})
						}
					}
				}
			}
		}
	}
	accepted, rejected := 0, 0
	viol := func(i int, kind, site, detail string) {
		for _, o := range res.Violations {
			if o.Kind == kind && o.Site == site {
				return
			}
		}
		one := cs
		one.Only = i
		res.Violations = append(res.Violations, engine.Violation{Property: "C09", Kind: kind, Site: site, Detail: detail, Case: sim.MustJSON(one)})
	}
	panicSite := func(p, log string) string {
		// the application frame that panicked: first rigo-go frame of the stack
		for _, l := range strings.Split(log, "\n") {
			l = strings.TrimSpace(l)
			if strings.HasPrefix(l, "github.com/rigochain/rigo-go/") && !strings.Contains(l, "verif") {
				if i := strings.LastIndexByte(l, '('); i > 0 {
					l = l[:i]
				}
				return strings.TrimPrefix(l, "github.com/rigochain/rigo-go/")
			}
		}
		return firstLineOf(p)
	}
	inBlock := false
	open := func() bool {
		if inBlock {
			return true
		}
		b := ch.BeginBlock(sim.BlockOpts{Proposer: "V0"})
		if b.Panic != "" {
			return false
		}
		inBlock = true
		return true
	}
	closeBlock := func(i int) bool {
		if !inBlock {
			return true
		}
		inBlock = false
		if e := ch.EndBlock(); e.Panic != "" {
			viol(i, "panic", "EndBlock after hostile input: "+panicSite(e.Panic, e.Log), "EndBlock panicked after the batch ending with input #"+fmt.Sprint(i)+": "+e.Panic)
			return false
		}
		if cm := ch.Commit(); cm.Panic != "" {
			viol(i, "panic", "Commit after hostile input: "+panicSite(cm.Panic, cm.Log), "Commit panicked after the batch ending with input #"+fmt.Sprint(i)+": "+cm.Panic)
			return false
		}
		return true
	}
	probe := func(i int) bool {
		// liveness: a well-formed transfer in a new block succeeds, the block commits
		if !open() {
			viol(i, "node-unusable", "BeginBlock", "BeginBlock panicked after input #"+fmt.Sprint(i))
			return false
		}
		out := ch.Deliver(tr("L", "U1", "1"), nil)
		if out.Rec.Panic != "" || out.Code != 0 {
			viol(i, "node-unusable", "probe-transfer", fmt.Sprintf("after input #%d a well-formed transfer fails: code %d %s %s", i, out.Code, firstLineOf(out.Rec.Log), out.Rec.Panic))
			return false
		}
		return closeBlock(i)
	}
	reopen := func() bool {
		r.Cleanup()
		r, err = c.prepareChain(cs.State)
		if err != nil {
			res.Err = err.Error()
			return false
		}
		ch = r.Chain
		inBlock = false
		return true
	}
	count := 0
	npanics := 0
	for i, x := range in {
		if cs.Only >= 0 && i != cs.Only {
			continue
		}
		if cs.Only < 0 && cs.Shards > 1 && i%cs.Shards != cs.Shard {
			continue
		}
		count++
		var rec sim.CallRec
		switch cs.Chan {
		case "query":
			rec, _ = ch.Query(x.QPath, x.QData, x.QHeight)
		default:
			raw := x.Raw
			if x.Build != nil {
				raw = x.Build(ch)
				if raw == nil {
					res.Count("inputs_not_encodable(skipped)", 1)
					continue
				}
			}
			if cs.Chan == "check" {
				// half of the checks happen in the middle of a block
				if i%2 == 0 && !strings.HasSuffix(cs.State, "+restart") {
					open()
				}
				rec = ch.CheckTxRaw(raw, x.Tag)
			} else {
				if !open() {
					viol(i, "node-unusable", "BeginBlock", "BeginBlock panicked")
					break
				}
				rec, _ = ch.DeliverRaw(raw, x.Tag)
			}
			if rec.Panic != "" {
				x.Tag += " raw=" + hex.EncodeToString(raw)
			}
		}
		res.Transitions++
		if rec.Panic != "" {
			tag := x.Tag
			if len(tag) > 600 {
				tag = tag[:600] + "…"
			}
			viol(i, "panic", cs.Chan+": "+panicSite(rec.Panic, rec.Log), fmt.Sprintf("%s at state %s with input #%d <%s> panicked: %s\n%s", cs.Chan, cs.State, i, tag, rec.Panic, rec.Log))
			// continue on a fresh instance: a panicking instance may be poisoned
			npanics++
			if npanics >= 12 {
				// the violation is recorded; re-opening the application after each of hundreds of further panics only burns time
				res.Count("shards_cut_after_12_panics", 1)
				break
			}
			if !reopen() {
				return res
			}
			continue
		}
		if rec.Code == 0 {
			accepted++
			// an accepted envelope consumed its sender's nonce: keep the wallet-side counter in step so that
			// the following hostile variants are not all rejected for a stale nonce
			if cs.Chan == "deliver" && x.Build != nil && (cs.Gen == "hostile" || cs.Gen == "hostile2") {
				ch.Nonces[c09Bases()[cs.Tmpl].From]++
			}
		} else {
			rejected++
		}
		if count%400 == 0 {
			if !probe(i) && !reopen() {
				return res
			}
			if strings.HasSuffix(cs.State, "+restart") && !reopen() { // the probe executed a block: restart again
				return res
			}
		}
	}
	if npanics < 12 && !probe(len(in)) {
		// already reported
	}
	res.Count("inputs", count)
	res.Count("inputs_accepted", accepted)
	res.Count("inputs_rejected", rejected)
	res.Nontrivial = accepted > 0 && rejected > 0
	res.Outcome = fmt.Sprintf("%s/%s/%s", cs.State, cs.Chan, cs.Gen)
	res.States = append(res.States, shortHash(fmt.Sprintf("%s/%s/%s/%d/%d:%d:%d", cs.State, cs.Chan, cs.Gen, cs.Tmpl, cs.Shard, accepted, rejected)))
	if cs.Gen == "hostile" && cs.Tmpl == 4 && cs.State == "dense4" {
		var tags []string
		for i, x := range in {
			if i%9 == 0 {
				tags = append(tags, x.Tag)
			}
		}
		res.Sample = sim.MustJSON(map[string]interface{}{"state": cs.State, "channel": cs.Chan, "generator": cs.Gen, "some_inputs": tags})
	}
	return res
}

// runDelayed: propose an option document, vote it through, let it apply, then keep the chain busy (stake changes,
// evidence, missed signatures, transfers) for several blocks. Any panic of a consensus call is a violation.
func (c *c09) runDelayed(cs c09Case, desc json.RawMessage) engine.Result {
	res := engine.Result{}
	opt := `{"gasPrice":"4"}`
	var shape *hostile
	if cs.Tmpl >= 1000 {
		k := 0
		for _, hm := range c09Hostiles() {
			if strings.HasPrefix(hm.Name, "proposal.") {
				if k == cs.Tmpl-1000 {
					x := hm
					shape = &x
				}
				k++
			}
		}
	} else {
		opt = c09DelayedOptions()[cs.Tmpl]
	}
	g := c09Genesis()
	if shape != nil {
		return c.runDelayedShape(cs, desc, *shape)
	}
	h := sim.History{Gen: g, Blocks: []sim.Block{
		blk(), blk(stk("U0", "V1", "3R")),
		blk(prop("V0", 1, 1, 1, opt)),
		blk(vote("V0", 0, 0), vote("V1", 0, 0), vote("V2", 0, 0)),
		blk(), blk(), blk(tr("L", "U1", "1")),
		blkO(sim.BlockOpts{Evidence: []string{"V1"}, Absent: []string{"V2"}}, stk("V3", "V3", "9R"), tr("L", "U1", "1")),
		blkO(sim.BlockOpts{Absent: []string{"V2"}}, unstk("U0", "U0", "V1", 0), prop("V0", 1, 1, 1, `{"gasPrice":"3"}`)),
		blkO(sim.BlockOpts{Absent: []string{"V2"}}, wdr("V0", "1"), vote("V0", 1, 0)),
		blk(tr("L", "U1", "1")), blk(), blk(tr("L", "U1", "1")),
	}}
	r := sim.Run(tmpRoot(), h, &sim.Hooks{NoStates: true})
	defer r.Cleanup()
	res.Transitions = len(r.Chain.Log)
	accepted := false
	for _, b := range r.Outcomes {
		for _, o := range b {
			if o.Spec.Type == "proposal" && o.Code == 0 && len(o.Spec.PropOptions) > 0 && o.Spec.PropOptions[0] == opt {
				accepted = true
			}
		}
	}
	res.Count("inputs", 1)
	if accepted {
		res.Count("inputs_accepted", 1)
		res.Count("delayed_proposals_accepted", 1)
	} else {
		res.Count("inputs_rejected", 1)
	}
	for _, l := range r.Chain.Log {
		if l.Panic != "" {
			site := l.Kind + " after an accepted proposal"
			for _, ln := range strings.Split(l.Log, "\n") {
				ln = strings.TrimSpace(ln)
				if strings.HasPrefix(ln, "github.com/rigochain/rigo-go/") {
					if i := strings.LastIndexByte(ln, '('); i > 0 {
						ln = ln[:i]
					}
					site = l.Kind + ": " + strings.TrimPrefix(ln, "github.com/rigochain/rigo-go/")
					break
				}
			}
			res.Violations = append(res.Violations, engine.Violation{Property: "C09", Kind: "panic", Site: site,
				Detail: fmt.Sprintf("governance option %s was proposed, voted and applied; %s of block %d then panicked: %s\n%s", opt, l.Kind, l.H, l.Panic, l.Log), Case: desc})
			break
		}
	}
	res.Nontrivial = accepted
	res.Outcome = "delayed"
	res.States = append(res.States, shortHash("delayed/"+opt))
	return res
}

// runHistories: a shard of the single-deviation neighbourhood of a shared history family; every ABCI call of every
// history must return.
func (c *c09) runHistories(cs c09Case, desc json.RawMessage) engine.Result {
	res := engine.Result{}
	var fi int
	fmt.Sscan(cs.State, &fi)
	f := sharedFamilies()[fi]
	base := f.Base()
	ss := historySlotsN(base, f.Menu, f.WithEnv, 1, true)
	sets, _ := enumDevs(ss.sizes(), 1, 2, nil)
	lo, hi := cs.Shard*cs.Shards, (cs.Shard+1)*cs.Shards
	if hi > len(sets) {
		hi = len(sets)
	}
	for i := lo; i < hi; i++ {
		if cs.Only >= 0 && i != cs.Only {
			continue
		}
		h := ss.apply(base, sets[i])
		r := sim.Run(tmpRoot(), h, &sim.Hooks{NoStates: true})
		res.Transitions += len(r.Chain.Log)
		res.Count("inputs", len(r.Chain.Log))
		for _, l := range r.Chain.Log {
			if l.Code == 0 {
				res.Count("inputs_accepted", 1)
			} else {
				res.Count("inputs_rejected", 1)
			}
			if l.Panic != "" {
				one := cs
				one.Only = i
				site := l.Kind
				for _, ln := range strings.Split(l.Log, "\n") {
					ln = strings.TrimSpace(ln)
					if strings.HasPrefix(ln, "github.com/rigochain/rigo-go/") {
						if k := strings.LastIndexByte(ln, '('); k > 0 {
							ln = ln[:k]
						}
						site = l.Kind + ": " + strings.TrimPrefix(ln, "github.com/rigochain/rigo-go/")
						break
					}
				}
				dup := false
				for _, o := range res.Violations {
					if o.Site == site {
						dup = true
					}
				}
				if !dup {
					res.Violations = append(res.Violations, engine.Violation{Property: "C09", Kind: "panic", Site: site,
						Detail: fmt.Sprintf("%s of block %d panicked: %s\n family %s, deviations %v\n%s", l.Kind, l.H, l.Panic, f.Name, ss.describe(sets[i]), l.Log), Case: sim.MustJSON(one)})
				}
				break
			}
		}
		r.Cleanup()
	}
	res.Nontrivial = true
	res.Outcome = "histories"
	res.States = append(res.States, shortHash(fmt.Sprintf("hist/%d/%d", fi, cs.Shard)))
	return res
}

// runDelayedShape: a proposal whose PAYLOAD SHAPE is hostile (option type, option list, heights) is signed by a validator and
// delivered; whether or not it is accepted, the chain then runs 10 more blocks with votes on it: no call may panic.
func (c *c09) runDelayedShape(cs c09Case, desc json.RawMessage, hm hostile) engine.Result {
	res := engine.Result{}
	h := sim.History{Gen: c09Genesis(), Blocks: []sim.Block{blk(), blk(stk("U0", "V1", "3R"))}}
	r := sim.Run(tmpRoot(), h, &sim.Hooks{NoStates: true})
	defer r.Cleanup()
	ch := r.Chain
	report := func(l sim.CallRec) {
		site := l.Kind + " after a hostile proposal shape"
		for _, ln := range strings.Split(l.Log, "\n") {
			ln = strings.TrimSpace(ln)
			if strings.HasPrefix(ln, "github.com/rigochain/rigo-go/") {
				if i := strings.LastIndexByte(ln, '('); i > 0 {
					ln = ln[:i]
				}
				site = l.Kind + ": " + strings.TrimPrefix(ln, "github.com/rigochain/rigo-go/")
				break
			}
		}
		res.Violations = append(res.Violations, engine.Violation{Property: "C09", Kind: "panic", Site: site,
			Detail: fmt.Sprintf("proposal with hostile shape <%s> was delivered; %s of block %d panicked: %s\n%s", hm.Name, l.Kind, l.H, l.Panic, l.Log), Case: desc})
	}
	step := func(rec sim.CallRec) bool {
		res.Transitions++
		if rec.Panic != "" {
			report(rec)
			return false
		}
		return true
	}
	accepted := false
	for b := 0; b < 12; b++ {
		if !step(ch.BeginBlock(sim.BlockOpts{Proposer: "V0"})) {
			return res
		}
		if b == 0 {
			for _, variant := range []int32{0x0101, 0x0200} {
				base := prop("V0", 1, 1, 1, `{"gasPrice":"4"}`)
				base.PropType = variant
				tx := ch.Build(base, ch.EnvFor(base, nil))
				hm.F(tx)
				tx.Sig = nil
				if !signSafe(sim.W("V0"), tx, ch.Gen.ChainID) {
					continue
				}
				bz := encodeTx(tx)
				if bz == nil {
					continue
				}
				rec, resp := ch.DeliverRaw(bz, "hostile proposal shape "+hm.Name)
				if !step(rec) {
					return res
				}
				if resp.Code == 0 {
					accepted = true
					ch.Nonces["V0"]++
					ch.Props = append(ch.Props, tmHash(bz))
				}
			}
		} else if b <= 4 {
			for i := range ch.Props {
				for _, v := range []string{"V0", "V1", "V2"} {
					out := ch.Deliver(vote(v, i, 0), nil)
					if !step(out.Rec) {
						return res
					}
				}
			}
		} else {
			out := ch.Deliver(tr("L", "U1", "1"), nil)
			if !step(out.Rec) {
				return res
			}
		}
		if !step(ch.EndBlock()) || !step(ch.Commit()) {
			return res
		}
	}
	res.Count("inputs", 2)
	if accepted {
		res.Count("inputs_accepted", 1)
		res.Count("delayed_proposal_shapes_accepted", 1)
	} else {
		res.Count("inputs_rejected", 1)
	}
	res.Nontrivial = accepted
	res.Outcome = "delayed-shape"
	res.States = append(res.States, shortHash("delayed-shape/"+hm.Name))
	return res
}

func (c *c09) Guards(a *engine.Agg, complete bool) []string {
	var g []string
	if a.Counters["inputs_accepted"] == 0 {
		g = append(g, "no input was ever accepted")
	}
	if a.Counters["inputs"] < 10000 {
		g = append(g, "fewer than 10000 inputs")
	}
	return g
}
