package checks

import (
	"strings"
	"sync"
	"sync/atomic"
	"testing"
	"time"

	"github.com/rigochain/rigo-go/node"

	"verif/mc/sim"
)

// TestRacePass validates the "ABCI calls are atomic" abstraction the schedule exploration of C06/C19
// rests on: consensus, mempool and query traffic run FREE (three goroutines, no controlled scheduler)
// through the node's real local client. Run with -race (bin/race_pass.sh). It decides no property.
func TestRacePass(t *testing.T) {
	defer CleanupTmp()
	for _, v := range []string{"g3", "g4L"} {
		h := denseHistory(genesisByName(v))
		ref := reference("race/"+v, h)
		dir := sim.NewDir(tmpRoot(), "race")
		c, err := sim.NewChain(dir, h.Gen)
		if err != nil {
			t.Fatal(err)
		}
		creator := node.NewRigoLocalClientCreator(c.App)
		cons, _ := creator.NewABCIClient()
		mem, _ := creator.NewABCIClient()
		qry, _ := creator.NewABCIClient()
		c.API = &sim.ViaClient{C: cons}
		memC := &sim.Chain{App: c.App, API: &sim.ViaClient{C: mem}, Gen: h.Gen, Nonces: map[string]uint64{}}
		qryC := &sim.Chain{App: c.App, API: &sim.ViaClient{C: qry}, Gen: h.Gen}
		c.Start()
		var stop int32
		var wg sync.WaitGroup
		var nCheck, nQuery int64
		wg.Add(2)
		go func() {
			defer wg.Done()
			raws := [][]byte{}
			for _, b := range ref.Raw {
				raws = append(raws, b...)
			}
			for i := 0; atomic.LoadInt32(&stop) == 0; i++ {
				memC.CheckTxRaw(raws[i%len(raws)], "race")
				atomic.AddInt64(&nCheck, 1)
			}
		}()
		go func() {
			defer wg.Done()
			paths := []string{"account", "delegatee", "stakes", "reward", "proposal", "gov_params", "stakes/total_power"}
			keys := []string{"U0", "V1", "V0", "W"}
			for i := 0; atomic.LoadInt32(&stop) == 0; i++ {
				qryC.Query(paths[i%len(paths)], sim.W(keys[i%len(keys)]).Addr, int64(i%3))
				atomic.AddInt64(&nQuery, 1)
			}
		}()
		res := &sim.RunResult{Chain: c, Dirs: []string{dir}}
		for round := 0; round < 1; round++ {
			// give the free-running goroutines room between consensus calls
			sim.RunBlocks(tmpRoot(), res, h.Blocks, &sim.Hooks{NoStates: true, Gap: func(*sim.Chain, int64, string, int) { time.Sleep(4 * time.Millisecond) }})
		}
		atomic.StoreInt32(&stop, 1)
		wg.Wait()
		la := res.Chain.ConsensusLog()
		if i, x, y := firstDiff(la, ref.Log); i >= 0 {
			t.Errorf("%s: free-running traffic changed consensus call #%d:\n loaded: %s\n quiet : %s", v, i, x, y)
		}
		t.Logf("%s: %d consensus calls, %d concurrent CheckTx, %d concurrent Query, final %s", v, len(la), nCheck, nQuery, strings.TrimPrefix(la[len(la)-1], "Commit"))
		res.Cleanup()
	}
}
