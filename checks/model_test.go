package checks

import (
	"fmt"
	"testing"
)

// TestModelOnDefaults runs the reference model against the default histories and prints every finding.
func TestModelOnDefaults(t *testing.T) {
	defer CleanupTmp()
	for _, v := range []string{"g3", "g1", "g4L", "g3s"} {
		h := denseHistory(genesisByName(v))
		if v == "g3s" {
			h = smallStakeHistory(genesis3s())
		}
		mr := runWithModel(h, nil)
		fmt.Printf("== %s: ok=%d fail=%d findings=%d dead=%v err=%s\n", v, mr.TxOK, mr.TxFail, len(mr.Findings), mr.Res.Chain.DeadReason, mr.Res.Err)
		for i, f := range mr.Findings {
			if i > 25 {
				break
			}
			fmt.Printf("   [%s] %s @ %s h=%d: %s\n", f.Prop, f.Kind, f.Site, f.H, f.Detail)
		}
		mr.Res.Cleanup()
	}
}
