package checks

// C17 — contract execution is standard EVM semantics over the native account ledger.
// Program enumeration: contracts assembled from a gadget alphabet (all gadget sequences up to the
// tier's length) are deployed, called, paid by plain transfer and queried inside a history that
// mixes native transfers, staking and fee payments on the same accounts; every contract
// transaction is executed in lock step on the reference EVM world (mc/evmref).

import (
	"bytes"
	"encoding/base64"
	"encoding/hex"
	"encoding/json"
	"fmt"
	"math/big"
	"sort"
	"strings"

	"github.com/ethereum/go-ethereum/common"
	"github.com/ethereum/go-ethereum/core"
	ethcrypto "github.com/ethereum/go-ethereum/crypto"

	"verif/mc/engine"
	"verif/mc/evmref"
	"verif/mc/refmodel"
	"verif/mc/sim"
)

// ---- gadget assembler ----

type gadget struct {
	Name string
	Code func(off int) []byte // off = byte offset of the gadget inside the runtime code (for jump targets)
	Term bool                 // terminates execution
	Ext  bool                 // extended alphabet: takes part in programs of length <= 2 only
}

func hx2(s string) []byte { b, _ := hex.DecodeString(clean(s)); return b }

func push20(a []byte) []byte { return append([]byte{0x73}, a...) }

func callTo(addr []byte, value byte, gas uint16) []byte {
	// retSize retOff argSize argOff value addr gas CALL POP
	b := hx2("6000 6000 6000 6000")
	b = append(b, 0x60, value)
	b = append(b, push20(addr)...)
	b = append(b, 0x61, byte(gas>>8), byte(gas))
	b = append(b, 0xf1, 0x50)
	return b
}

func c17Gadgets() []gadget {
	u1 := sim.W("U1").Addr
	helper := sim.CreateAddress("U0", 0)     // H: the counter contract deployed first by U0
	reverter := sim.CreateAddress("W", 0)    // R: always reverts
	peekRevert := sim.CreateAddress("V3", 0) // B: reads BALANCE(never-seen account), then reverts
	picky := sim.CreateAddress("V2", 0)      // K: reverts when called without value, accepts value
	childInit := hx2("6001600c60003960016000f300")
	create := func(op byte, salt bool) []byte {
		// PUSH13 init PUSH1 0 MSTORE ; [salt] size off value CREATE(2) POP
		b := append([]byte{0x6c}, childInit...)
		b = append(b, hx2("600052")...)
		if salt {
			b = append(b, hx2("6005")...)
		}
		b = append(b, hx2("600d 6013 6000")...)
		b = append(b, op, 0x50)
		return b
	}
	fixed := func(b []byte) func(int) []byte { return func(int) []byte { return b } }
	return []gadget{
		{"sstore(0,7)", fixed(hx2("6007600055")), false, false},
		{"slot0++", fixed(hx2("600054600101600055")), false, false},
		{"log1", fixed(hx2("60aa60006000a1")), false, false},
		{"balance(U1)->slot1", fixed(append(append(push20(u1), 0x31), hx2("600155")...)), false, false},
		{"call U1 value 1", fixed(callTo(u1, 1, 0xffff)), false, false},
		{"call H value 1", fixed(callTo(helper, 1, 0xffff)), false, false},
		{"call R (reverts)", fixed(callTo(reverter, 0, 0xffff)), false, false},
		{"call R value 1 (reverts)", fixed(callTo(reverter, 1, 0xffff)), false, false},
		{"call B (BALANCE of a never-seen account, then revert)", fixed(callTo(peekRevert, 0, 0xffff)), false, false},
		{"call K value 0 (K reverts)", fixed(callTo(picky, 0, 0xffff)), false, false},
		{"call K value 1 (K accepts)", fixed(callTo(picky, 1, 0xffff)), false, false},
		{"call self gas 3000", func(int) []byte {
			return append(append(hx2("6000 6000 6000 6000 6000 30"), 0x61, 0x0b, 0xb8), 0xf1, 0x50)
		}, false, false},
		{"create child", fixed(create(0xf0, false)), false, false},
		{"create2 child", fixed(create(0xf5, true)), false, false},
		{"callvalue->slot2", fixed(hx2("34600255")), false, false},
		{"selfbalance->slot3", fixed(hx2("47600355")), false, false},
		{"burn loop", func(off int) []byte {
			// PUSH1 20 JUMPDEST PUSH1 1 SWAP1 SUB DUP1 PUSH1 dest JUMPI POP
			dest := byte(off + 2)
			return []byte{0x60, 20, 0x5b, 0x60, 1, 0x90, 0x03, 0x80, 0x60, dest, 0x57, 0x50}
		}, false, false},
		{"balance(new addr)->slot4", fixed(append(append(push20(sim.W("fresh-untouched").Addr), 0x31), hx2("600455")...)), false, false},
		// the block and transaction context the contract sees: COINBASE NUMBER TIMESTAMP GASLIMIT CHAINID BASEFEE GASPRICE ORIGIN -> slots 5..12
		{"block context->slots 5..12", fixed(hx2("41600555 43600655 42600755 45600855 46600955 48600a55 3a600b55 32600c55")), false, false},
		{"call COINBASE value 1", fixed(hx2("6000 6000 6000 6000 6001 41 61ffff f1 50")), false, false},
		// extended alphabet (programs of length <= 2): code introspection of a contract and of native accounts, the two
		// call kinds that run foreign code on this contract's storage / read-only, value sent to a precompile address
		{Name: "extcodesize(H)->slot13, extcodehash(U1)->slot14, extcodehash(never-seen)->slot15", Code: fixed(append(append(append(append(append(push20(helper), 0x3b), hx2("600d55")...), append(append(push20(u1), 0x3f), hx2("600e55")...)...), append(push20(sim.W("fresh-untouched").Addr), 0x3f)...), hx2("600f55")...)), Ext: true},
		{Name: "delegatecall H (its counter code on this storage)", Code: fixed(append(append(hx2("6000 6000 6000 6000"), push20(helper)...), hx2("61ffff f4 50")...)), Ext: true},
		{Name: "staticcall H (writes: must fail inside)", Code: fixed(append(append(hx2("6000 6000 6000 6000"), push20(helper)...), hx2("61ffff fa 50")...)), Ext: true},
		{Name: "call precompile#2 value 1", Code: fixed(callTo(append(make([]byte, 19), 2), 1, 0xffff)), Ext: true},
		// T (deployed by D after the program): reads BALANCE(never-seen account) and STOPs - an inner frame that first touches
		// a third party and returns SUCCESSFULLY (a following terminal REVERT of the caller fails the whole transaction)
		{Name: "call T (inner frame touches a never-seen account, succeeds)", Code: fixed(callTo(sim.CreateAddress("D", 0), 0, 0xffff)), Ext: true},
		{"return 0x2a", fixed(hx2("602a60005260206000f3")), true, false},
		{"revert 1 byte", fixed(hx2("60016000fd")), true, false},
		{"selfdestruct->U1", fixed(append(push20(u1), 0xff)), true, false},
		{"selfdestruct->caller", fixed(hx2("33ff")), true, false},
		{"selfdestruct->itself (burn)", fixed(hx2("30ff")), true, false},
	}
}

func assemble(seq []int) (runtime []byte, names []string) {
	gs := c17Gadgets()
	for _, g := range seq {
		runtime = append(runtime, gs[g].Code(len(runtime))...)
		names = append(names, gs[g].Name)
		if gs[g].Term {
			return
		}
	}
	runtime = append(runtime, 0x00)
	return
}

func initCodeFor(runtime []byte) []byte {
	// PUSH2 len PUSH1 0x0d PUSH1 0 CODECOPY PUSH2 len PUSH1 0 RETURN  (13 bytes)
	n := len(runtime)
	b := []byte{0x61, byte(n >> 8), byte(n), 0x60, 0x0d, 0x60, 0x00, 0x39, 0x61, byte(n >> 8), byte(n), 0x60, 0x00, 0xf3}
	b[4] = byte(len(b))
	return append(b, runtime...)
}

// ---- the EVM hook ----

type evmHook struct {
	w         *evmref.World
	chain     *sim.Chain
	gen       *sim.Genesis
	pool      *core.GasPool
	poolH     int64
	touched   map[string]bool
	counters  map[string]int
	model     *refmodel.Model
	destroyed map[string]bool // contracts that existed in the reference world and were removed by SELFDESTRUCT
	hadCode   map[string]bool
}

func addrOf(hexs string) common.Address {
	b, _ := hex.DecodeString(hexs)
	var a common.Address
	copy(a[:], b)
	return a
}

func (e *evmHook) hasCode(hexAddr string) bool {
	return len(e.w.DB.GetCode(addrOf(hexAddr))) > 0
}

func (e *evmHook) Handles(m *refmodel.Model, t *refmodel.TxInfo) bool {
	if t.Type == "deploy" || t.Type == "call" {
		return true
	}
	// a plain transfer to a contract address: the reference world decides by CODE, the statement's notion of "contract address"
	return t.Type == "transfer" && e.hasCode(t.To)
}

func (e *evmHook) syncIn(m *refmodel.Model) {
	for a, acc := range m.Acct {
		ad := addrOf(a)
		if e.w.DB.GetBalance(ad).Cmp(acc.Bal) != 0 {
			e.w.DB.SetBalance(ad, new(big.Int).Set(acc.Bal))
		}
		if e.w.DB.GetNonce(ad) != acc.Nonce {
			e.w.DB.SetNonce(ad, acc.Nonce)
		}
	}
}

func (e *evmHook) syncOut(m *refmodel.Model) {
	for ad, da := range e.w.Accounts() {
		a := hexU(ad[:])
		acc := m.Account(a)
		b, _ := new(big.Int).SetString(da.Balance, 10)
		if acc.Bal.Cmp(b) != 0 || acc.Nonce != da.Nonce {
			m.Touch(a, "evm")
			e.touched[a] = true
		}
		acc.Bal = b
		acc.Nonce = da.Nonce
		if len(da.Code) > 0 || len(da.Storage) > 0 {
			found := false
			for _, wch := range e.chain.Watch {
				if bytes.Equal(wch, ad[:]) {
					found = true
				}
			}
			if !found {
				e.chain.Watch = append(e.chain.Watch, append([]byte{}, ad[:]...))
			}
		}
	}
	// accounts the reference world deleted (self-destructed / emptied) hold nothing
	accs := e.w.Accounts()
	for ad, da := range accs {
		if len(da.Code) > 0 {
			e.hadCode[hexU(ad[:])] = true
		}
	}
	for a := range e.hadCode {
		if _, ok := accs[addrOf(a)]; !ok {
			e.destroyed[a] = true
			e.touched[a] = true
		}
	}
	for a, acc := range m.Acct {
		if _, ok := accs[addrOf(a)]; !ok && e.touched[a] && (acc.Bal.Sign() != 0 || acc.Nonce != 0) {
			if e.w.DB.Empty(addrOf(a)) {
				acc.Bal = new(big.Int)
				acc.Nonce = 0
			}
		}
	}
}

func (e *evmHook) Deliver(m *refmodel.Model, t *refmodel.TxInfo) {
	h := m.Cur()
	if e.poolH != h {
		e.pool = new(core.GasPool).AddGas(evmref.BlockGasLimit)
		e.poolH = h
	}
	e.counters["evm_messages"]++
	site := t.Type
	implEVM := t.Type != "transfer" || t.ToIsContract
	e.syncIn(m)
	var to *common.Address
	if t.Type != "deploy" {
		a := addrOf(t.To)
		to = &a
	}
	var coinbase common.Address
	if p := m.Proposer(); p != "" {
		coinbase = addrOf(p)
	}
	// admission (C16) as in the native model: the harness only builds correctly priced transactions here
	price := new(big.Int).Set(t.Price)
	// the reference must not run a transaction the node rejects BEFORE execution for native reasons (signature, nonce, funds)
	snd := m.Account(t.From)
	pre := t.SigOK && t.Nonce == snd.Nonce && price.Cmp(m.P("gasPrice")) == 0
	need := new(big.Int).Add(new(big.Int).Mul(price, new(big.Int).SetUint64(t.Gas)), t.Amount)
	if snd.Bal.Cmp(need) < 0 {
		pre = false
	}
	if !pre {
		if t.Code == 0 {
			m.Report("C17", "contract-tx-accepted-against-native-admission-rules", site, "height %d: %s by %s accepted although signature/nonce/price/funds do not admit it", h, t.Type, t.From)
		}
		return
	}
	var txh common.Hash
	copy(txh[:], addrOfHash(t.Hash))
	r := e.w.Apply(addrOf(t.From), to, t.Nonce, t.Amount, t.Gas, price, t.Data, coinbase, h, e.gen.GenTime+h, txh, t.TxIdx, e.pool, false)
	implOK := t.Code == 0
	if !implEVM {
		// the node took the NATIVE path for an address that carries code in the EVM world
		e.counters["plain_transfer_to_contract_without_native_marker"]++
		nativeLike := implOK && uint64(t.GasUsed) == t.Gas
		if r.Failed != !implOK || (implOK && (r.GasUsed != uint64(t.GasUsed))) || nativeLike {
			m.Report("C17", "plain-transfer-to-contract-bypasses-evm", "contract-without-native-code-marker(created-by-CREATE)",
				"height %d: plain transfer of %s to %s, which carries code in the EVM world but no native code marker: node result code=%d gasUsed=%d (native path), reference EVM: failed=%v (%s) gasUsed=%d", h, t.Amount, t.To, t.Code, t.GasUsed, r.Failed, r.Err, r.GasUsed)
		}
		// follow the node (native semantics) so that later comparisons stay meaningful
		if implOK {
			if !r.Failed {
				// undo nothing: reference already applied the call; overwrite with native effect through the model below
			}
			fee := new(big.Int).Mul(price, new(big.Int).SetUint64(t.Gas))
			// recompute from the model's pre-state: reference effects are discarded by re-syncing in at the next message
			s := m.Account(t.From)
			s.Nonce++
			s.Bal.Sub(s.Bal, fee)
			s.Bal.Sub(s.Bal, t.Amount)
			rc := m.Account(t.To)
			rc.Bal.Add(rc.Bal, t.Amount)
			m.AddFee(fee)
			m.Touch(t.From, "evm")
			m.Touch(t.To, "evm")
		}
		return
	}
	if r.Failed != !implOK {
		m.Report("C17", "outcome-differs", site, "height %d: %s %s->%s value %s gas %d: node code=%d (%s), reference EVM failed=%v (%s)", h, t.Type, t.From, t.To, t.Amount, t.Gas, t.Code, firstLineOf(t.ErrLog), r.Failed, r.Err)
		if implOK {
			// cannot know the node's effects; balances are re-synchronised by the state comparison
		}
		return
	}
	if r.Failed {
		e.counters["evm_failed_both"]++
		if t.Code != 0 && len(t.RetData) > 0 && !bytes.Equal(t.RetData, r.Ret) {
			m.Report("C17", "revert-data-differs", site, "height %d: node returned %X, reference %X", h, t.RetData, r.Ret)
		}
		return
	}
	e.counters["evm_ok_both"]++
	if uint64(t.GasUsed) != r.GasUsed {
		m.Report("C17", "gas-used-differs", site, "height %d: %s: node used %d gas, reference EVM %d", h, t.Type, t.GasUsed, r.GasUsed)
	}
	if t.Type == "deploy" {
		if !bytes.Equal(t.RetData, r.Created[:]) {
			m.Report("C17", "created-address-differs", site, "height %d: node reports contract %X, reference %X", h, t.RetData, r.Created)
		}
	} else if !bytes.Equal(t.RetData, r.Ret) {
		m.Report("C17", "return-data-differs", site, "height %d: node returned %X, reference %X", h, t.RetData, r.Ret)
	}
	var refLogs []string
	for _, l := range r.Logs {
		s := "addr=" + hexU(l.Address[:])
		for i, tp := range l.Topics {
			s += fmt.Sprintf(" topic.%d=%s", i, hexU(tp[:]))
		}
		if len(l.Data) > 0 {
			s += " data=" + hexU(l.Data)
		}
		refLogs = append(refLogs, s)
	}
	if strings.Join(refLogs, ";") != strings.Join(t.Logs, ";") {
		m.Report("C17", "logs-differ", site, "height %d: node logs %v, reference %v", h, t.Logs, refLogs)
	}
	// effects: the native ledger takes the EVM's results for all touched accounts
	m.AddFee(new(big.Int).Mul(price, new(big.Int).SetUint64(r.GasUsed)))
	e.syncOut(m)
	m.Touch(t.From, "evm")
	e.touched[t.From] = true
	if t.Type == "deploy" {
		m.Account(hexU(r.Created[:])).Code = t.Hash
	}
}

func addrOfHash(h string) []byte { b, _ := hex.DecodeString(h); return b }

// ---- the check ----

type c17Case struct {
	Prog   []int `json:"prog"`
	Family int   `json:"family"`
	Lv     int   `json:"lv"`
}

type c17 struct {
	tier  string
	cases []c17Case
}

func init() { engine.Register("C17", func() engine.Check { return &c17{} }) }

func (c *c17) ID() string { return "C17" }
func (c *c17) Meta() engine.Meta {
	m := modelMeta("exhaustive program enumeration (gadget sequences) x history family on the real application, lock-step differential execution against a reference EVM world",
		"C17: contracts assembled from 30 gadgets (five of them - a CALL of a helper whose inner frame first touches a never-seen account and returns successfully, EXTCODESIZE / EXTCODEHASH of a contract, a native account and a never-seen account -> storage, DELEGATECALL and STATICCALL of another contract, CALL with value to a precompile - only in programs up to length 2; the block and transaction context COINBASE NUMBER TIMESTAMP GASLIMIT CHAINID BASEFEE GASPRICE ORIGIN -> storage, CALL with value to the COINBASE, SSTORE const, SLOAD+1, LOG1, BALANCE(EOA)->storage, BALANCE(never-seen address)->storage, CALL with value to an EOA / to another contract / to a reverting contract (with and without value) / to a contract that reads the BALANCE of a never-seen account and reverts / to a contract that reverts without value and accepts value / to itself with little gas, CREATE and CREATE2 of a child, CALLVALUE / SELFBALANCE -> storage, a gas-burning loop, RETURN data, REVERT data, SELFDESTRUCT to another account / to the caller / into itself (a burn by EVM definition)): ALL gadget sequences up to length 3 (quick) / 4 (thorough). Each program runs in 4 history families mixing: deployment with and without value, calls with and without value by two callers, a plain transfer to the contract, a plain transfer to a child the contract created, native transfers to and from the touched accounts before and after, staking by the caller, native credits landing BETWEEN two contract transactions of the same block that touch the credited account, blocks with and without proposer, and a vm_call query after every block. "+
			"Oracle: mc/evmref = vanilla go-ethereum StateDB + core.ApplyMessage with the application's chain configuration and block context; balances and nonces are overwritten from the native-ledger model before every message and copied back after it. Compared per transaction: success/failure, return data (created address for deployments), gas used, logs; at every committed height: native balance and nonce of EVERY account of the reference world, contract code and storage of every contract (also children). A failing execution follows RIGO's own rule (no effect, no fee). vm_call: same result as a read-only reference call, and the complete state is unchanged by it.",
		"go-ethereum's interpreter, StateDB and ApplyMessage are a dependency and trusted; what is judged is the repository's state-db wrapper and controller")
	m.LevelName = "length of the gadget sequence"
	return m
}

func (c *c17) Prepare(tier string, seed int64) error {
	c.tier = tier
	c.cases = nil
	L := 3
	if tier == "thorough" {
		L = 4
	}
	ng := len(c17Gadgets())
	gs := c17Gadgets()
	var rec func(cur []int)
	rec = func(cur []int) {
		if len(cur) > 0 {
			fams := []int{0}
			if len(cur) <= 2 {
				fams = []int{0, 1, 2, 3}
			} else if len(cur) == 3 {
				fams = []int{len(c.cases) % 4}
			} else {
				fams = []int{len(c.cases) % 3}
			}
			for _, f := range fams {
				c.cases = append(c.cases, c17Case{Prog: append([]int{}, cur...), Family: f, Lv: len(cur)})
			}
		}
		if len(cur) == L || (len(cur) > 0 && gs[cur[len(cur)-1]].Term) {
			return
		}
		for g := 0; g < ng; g++ {
			if gs[g].Ext && len(cur) >= 2 {
				continue // the extended alphabet takes part up to length 2
			}
			if len(cur) >= 2 && (gs[cur[0]].Ext || gs[cur[1]].Ext) {
				continue
			}
			rec(append(cur, g))
		}
	}
	rec(nil)
	var out []c17Case
	for lv := 1; lv <= L; lv++ {
		for _, x := range c.cases {
			if x.Lv == lv {
				out = append(out, x)
			}
		}
	}
	c.cases = out
	return nil
}

func (c *c17) NumCases() int              { return len(c.cases) }
func (c *c17) Level(i int) int            { return c.cases[i].Lv }
func (c *c17) Desc(i int) json.RawMessage { return sim.MustJSON(c.cases[i]) }

func c17History(prog []int, fam int) (sim.History, []string) {
	runtime, names := assemble(prog)
	initc := hex.EncodeToString(initCodeFor(runtime))
	g := genesis3()
	g.Holders["fresh-untouched"] = "777R"
	P := "contract:4"
	pickyDeploy := deploy("V2", hex.EncodeToString(initCodeFor(hx2("34 15 60 06 57 00 5b 60 00 60 00 fd"))), "0")
	peek := deploy("V3", hex.EncodeToString(initCodeFor(append(append(push20(sim.W("fresh-untouched").Addr), 0x31, 0x50), hx2("60006000fd")...))), "0")
	big := func(s sim.TxSpec) sim.TxSpec { s.Gas = 900000; return s }
	child := "hex:" + hex.EncodeToString(createAddr(sim.CreateAddress("U0", 1), 1))
	var blocks []sim.Block
	switch fam {
	case 0:
		blocks = []sim.Block{
			blk(deploy("U0", counterInit, "0"), deploy("W", revertInit, "0"), peek, pickyDeploy),
			blk(tr("W", "U1", "1R"), big(deploy("U0", initc, "0"))),
			blk(big(call("U1", P, "", "0"))),
			blk(big(tr("W", P, "5")), big(call("U1", P, "", "3"))),
			blk(stk("U1", "V0", "1R"), big(call("U0", P, "", "0")), tr("U1", "W", "1")),
			blk(big(tr("W", child, "2")), big(call("U1", P, "", "0"))),
			// contract tx touching U1 and U0 / native credits to both (nonces unchanged) / contract txs touching them again, in ONE block
			blk(big(call("U1", P, "", "0")), tr("W", "U1", "123456789"), tr("W", "U0", "7"), big(call("U1", P, "", "0")), big(call("U0", P, "", "1"))),
		}
	case 1:
		blocks = []sim.Block{
			blk(deploy("U0", counterInit, "0"), deploy("W", revertInit, "0"), peek, pickyDeploy),
			blk(big(deploy("U0", initc, "2"))),
			blkO(sim.BlockOpts{Proposer: "V1"}, big(call("U1", P, "", "1")), big(call("U1", P, "", "0"))),
			blk(tr("U1", P, "0"), tr("U0", "U1", "3")),
			blkO(sim.BlockOpts{Proposer: "V0"}, big(call("W", P, "", "0")), big(tr("W", child, "0"))),
		}
	case 3:
		// nonce interplay: an account takes part in a contract transaction (so the EVM state holds a copy of it), then
		// sends native transactions, then is touched again by contract code (possibly first inside a reverting inner frame)
		blocks = []sim.Block{
			blk(deploy("U0", counterInit, "0"), deploy("W", revertInit, "0"), peek, pickyDeploy),
			blk(big(deploy("U0", initc, "0"))),
			blk(big(call("fresh-untouched", P, "", "0"))),
			blk(tr("fresh-untouched", "W", "1"), tr("fresh-untouched", "W", "2")),
			blk(big(call("U1", P, "", "0"))),
			blk(with(tr("fresh-untouched", "W", "2"), func(s *sim.TxSpec) { s.NonceOff = -1 }, "replay of the previous nonce"), tr("fresh-untouched", "W", "3"), big(call("U1", P, "", "1"))),
			blk(tr("fresh-untouched", "U1", "4")),
		}
	default:
		nop := sim.BlockOpts{}
		blocks = []sim.Block{
			blk(deploy("U0", counterInit, "0"), deploy("W", revertInit, "0"), peek, pickyDeploy),
			{Opts: nop, Txs: []sim.TxSpec{big(deploy("U0", initc, "1"))}},
			{Opts: nop, Txs: []sim.TxSpec{big(call("U1", P, "", "2")), tr("W", "fresh-untouched", "1")}},
			blk(big(call("U1", P, "", "0")), with(big(call("U0", P, "", "0")), func(s *sim.TxSpec) { s.Gas = 30000 }, "gas 30000")),
			blk(unstk("V2", "V2", "V2", 0), big(tr("U1", P, "1"))),
			blk(big(call("fresh-untouched", P, "", "0"))),
			blk(tr("fresh-untouched", "W", "1"), tr("fresh-untouched", "W", "2")),
			blk(big(call("U1", P, "", "0")), with(tr("fresh-untouched", "W", "2"), func(s *sim.TxSpec) { s.NonceOff = -1 }, "replay of the previous nonce")),
			blk(big(deploy("U1", "00", "0")), tr("W", "U1", "55"), big(deploy("U1", "00", "0")), tr("U0", P, "0"), tr("W", P, "9"), big(call("U1", P, "", "0"))),
		}
	}
	// helper T, deployed in block 2 AFTER the program (so that the program stays contract #4): BALANCE(never-seen) POP STOP
	g.Holders["D"] = "1000R"
	tInit := hex.EncodeToString(initCodeFor(append(append(push20(sim.W("fresh-untouched").Addr), 0x31, 0x50), 0x00)))
	blocks[1].Txs = append(blocks[1].Txs, deploy("D", tInit, "0"))
	return sim.History{Gen: g, Blocks: blocks}, names
}

func createAddr(from []byte, nonce uint64) []byte {
	var a common.Address
	copy(a[:], from)
	r := ethcrypto.CreateAddress(a, nonce)
	return r[:]
}

func (c *c17) RunDesc(desc json.RawMessage) engine.Result {
	var cs c17Case
	_ = json.Unmarshal(desc, &cs)
	res, findings, hook, names, mr := c17Run(cs)
	if mr != nil && mr.Res != nil {
		defer mr.Res.Cleanup()
	}
	if res.Err != "" {
		return res
	}
	for _, f := range findings {
		// in these histories every balance and nonce is part of "the native ledger equals the EVM's results"
		own := f.Prop == "C17" || f.Prop == "BAL" || (f.Prop == "C04" && f.Kind == "nonce-mismatch")
		if !own {
			res.Count("findings_owned_by_other_properties:"+f.Prop, 1)
			continue
		}
		site := f.Site
		if f.Prop != "C17" {
			site = "native-ledger:" + f.Kind
			// an account the reference world destroyed (SELFDESTRUCT): classified separately
			for a := range hook.destroyed {
				if strings.Contains(f.Detail, a) {
					site = "self-destructed-contract-keeps-native-" + strings.TrimSuffix(f.Kind, "-mismatch")
				}
			}
		}
		v := engine.Violation{Property: "C17", Kind: f.Kind, Site: site, Detail: fmt.Sprintf("%s\n program [%s] family %d", f.Detail, strings.Join(names, " ; "), cs.Family), Case: desc}
		dup := false
		for _, o := range res.Violations {
			if o.Fingerprint() == v.Fingerprint() {
				dup = true
			}
		}
		if !dup {
			res.Violations = append(res.Violations, v)
		}
	}
	res.Nontrivial = hook.counters["evm_ok_both"] > 1
	if len(cs.Prog) == 2 && cs.Prog[0] == 9 {
		res.Sample = sim.MustJSON(map[string]interface{}{"program": names, "family": cs.Family, "evm_ok": hook.counters["evm_ok_both"], "evm_failed": hook.counters["evm_failed_both"]})
	}
	return res
}

// c17Run executes one (program, family) case in lock step with the reference EVM world and returns ALL findings
// (also used by C04 for its EVM-interplay cases). The caller cleans up mr.Res.
func c17Run(cs c17Case) (res engine.Result, findings []refmodel.Finding, hook *evmHook, names []string, mr *modelRun) {
	var h sim.History
	h, names = c17History(cs.Prog, cs.Family)
	hook = &evmHook{w: evmref.New(), gen: h.Gen, touched: map[string]bool{}, counters: map[string]int{}, destroyed: map[string]bool{}, hadCode: map[string]bool{}}
	var extra []refmodel.Finding
	mo := &modelOpts{EVM: hook, OnStart: func(ch *sim.Chain, m *refmodel.Model) { hook.chain = ch; hook.model = m; ch.InstallRPCEnv() }}
	mo.Gap = func(ch *sim.Chain, hh int64, kind string, idx int) {
		if kind != "post-commit" || len(ch.Deployed) < 5 {
			return
		}
		// vm_call on the program contract: same answer as a read-only reference call; state untouched
		before, _ := ch.DumpState(0, append(append([][]byte{}, ch.Deployed...), ch.Watch...))
		P := ch.Deployed[4]
		from := sim.W("U1").Addr
		data := append(append(append([]byte{}, from...), P...), []byte{}...)
		rec, resp := ch.Query("vm_call", data, 0)
		hook.counters["vm_calls"]++
		after, _ := ch.DumpState(0, append(append([][]byte{}, ch.Deployed...), ch.Watch...))
		if before != nil && after != nil && before.JSON() != after.JSON() {
			d := sim.DiffStates(before, after)
			extra = append(extra, refmodel.Finding{Prop: "C17", Kind: "vm_call-changed-state", Site: "vm_call", H: hh, Detail: fmt.Sprintf("height %d: state differs after a vm_call: %v", hh, d)})
		}
		if rec.Panic != "" {
			extra = append(extra, refmodel.Finding{Prop: "C17", Kind: "vm_call-panicked", Site: "vm_call", H: hh, Detail: rec.Panic})
			return
		}
		if resp.Code != 0 {
			return
		}
		var out struct {
			UsedGas    json.RawMessage `json:"usedGas"`
			ReturnData string          `json:"returnData"`
			Err        string          `json:"vmErr"`
		}
		_ = json.Unmarshal(resp.Value, &out)
		if hook.model != nil {
			hook.syncIn(hook.model)
		}
		var pa common.Address
		copy(pa[:], P)
		var fa common.Address
		copy(fa[:], from)
		r := hook.w.Apply(fa, &pa, 0, new(big.Int), evmref.BlockGasLimit, new(big.Int), nil, fa, hh, h.Gen.GenTime+hh, common.Hash{}, 0, nil, true)
		ret, _ := base64.StdEncoding.DecodeString(out.ReturnData)
		refFailed := r.Failed
		if refFailed != (out.Err != "") {
			extra = append(extra, refmodel.Finding{Prop: "C17", Kind: "vm_call-outcome-differs", Site: "vm_call", H: hh, Detail: fmt.Sprintf("height %d: vm_call err=%q, reference failed=%v (%s)", hh, out.Err, r.Failed, r.Err)})
		} else if !bytes.Equal(ret, r.Ret) {
			extra = append(extra, refmodel.Finding{Prop: "C17", Kind: "vm_call-return-differs", Site: "vm_call", H: hh, Detail: fmt.Sprintf("height %d: vm_call returned %X, reference %X", hh, ret, r.Ret)})
		}
	}
	mr = runWithModel(h, mo)
	if mr.Res.Err != "" && (mr.Res.Chain == nil || !mr.Res.Chain.Dead) {
		res.Err = mr.Res.Err
		return
	}
	res.Transitions = len(mr.Res.Chain.Log)
	for _, st := range mr.Res.States {
		res.States = append(res.States, st.Hash())
	}
	res.Count("tx_ok", mr.TxOK)
	res.Count("tx_failed", mr.TxFail)
	findings = append(mr.Findings, extra...)
	// code + storage of every contract of the reference world at the final height
	if n := len(mr.Res.States); n > 0 && !mr.Res.Chain.Dead {
		st := mr.Res.States[n-1]
		for ad, da := range hook.w.Accounts() {
			if len(da.Code) == 0 && len(da.Storage) == 0 {
				continue
			}
			a := hexU(ad[:])
			ic, ok := st.Contracts[a]
			if !ok {
				findings = append(findings, refmodel.Finding{Prop: "C17", Kind: "contract-missing", Site: "state", Detail: fmt.Sprintf("reference world has contract %s (code %d bytes), the node's EVM state was not dumped for it", a, len(da.Code))})
				continue
			}
			if !strings.EqualFold(ic.Code, hex.EncodeToString(da.Code)) {
				findings = append(findings, refmodel.Finding{Prop: "C17", Kind: "code-differs", Site: "state", Detail: fmt.Sprintf("contract %s: node code %s, reference %X", a, ic.Code, []byte(da.Code))})
			}
			want := map[string]string{}
			for k, v := range da.Storage {
				want[strings.ToUpper(hex.EncodeToString(k[:]))] = strings.ToUpper(fmt.Sprintf("%064s", v))
			}
			got := map[string]string{}
			for k, v := range ic.Storage {
				got[k] = v
			}
			if fmt.Sprint(sortedKV(want)) != fmt.Sprint(sortedKV(got)) {
				findings = append(findings, refmodel.Finding{Prop: "C17", Kind: "storage-differs", Site: "state", Detail: fmt.Sprintf("contract %s: node storage %v, reference %v", a, sortedKV(got), sortedKV(want))})
			}
			res.Count("contracts_compared", 1)
		}
		// the other way round: a contract the node holds but the reference world does not (e.g. not removed after SELFDESTRUCT)
		refAcc := hook.w.Accounts()
		for a, ic := range st.Contracts {
			var ad common.Address
			copy(ad[:], addrOfHash(a))
			if _, ok := refAcc[ad]; !ok && (ic.Code != "" || len(ic.Storage) > 0) {
				findings = append(findings, refmodel.Finding{Prop: "C17", Kind: "contract-survives", Site: "state", Detail: fmt.Sprintf("the node's EVM state still has code/storage at %s, the reference world has no such account", a)})
			}
		}
	}
	for k, v := range hook.counters {
		res.Count(k, v)
	}
	res.Outcome = shortHash(strings.Join(mr.Res.Chain.ConsensusLog(), "\n"))
	return
}

func sortedKV(m map[string]string) []string {
	var l []string
	for k, v := range m {
		if strings.Trim(v, "0") == "" {
			continue
		}
		l = append(l, k+"="+v)
	}
	sort.Strings(l)
	return l
}

func (c *c17) Guards(a *engine.Agg, complete bool) []string {
	var g []string
	for _, k := range []string{"evm_ok_both", "evm_failed_both", "vm_calls", "contracts_compared"} {
		if a.Counters[k] == 0 {
			g = append(g, "never observed: "+k)
		}
	}
	return g
}
