package checks

// C18 — the versioned ledger behaves as a map with a consensus overlay, a mempool overlay and an
// immutable history.  Exhaustive exploration of operation sequences on the REAL
// ledger.FinalityLedger (IAVL over goleveldb on tmpfs), compared step by step with a map model.

import (
	"bytes"
	"crypto/sha256"
	"encoding/hex"
	"encoding/json"
	"fmt"
	"os"
	"path/filepath"
	"runtime"
	"sort"
	"strings"
	"sync"
	"sync/atomic"
	"time"

	"github.com/rigochain/rigo-go/ledger"
	"github.com/rigochain/rigo-go/types/xerrors"

	"verif/mc/engine"
)

type litem struct {
	K [32]byte
	V byte
}

func (i *litem) Key() ledger.LedgerKey { return i.K }
func (i *litem) Encode() ([]byte, xerrors.XError) {
	return append(append([]byte{}, i.K[:]...), i.V), nil
}
func (i *litem) Decode(d []byte) xerrors.XError {
	if len(d) != 33 {
		return xerrors.NewOrdinary("bad litem")
	}
	copy(i.K[:], d[:32])
	i.V = d[32]
	return nil
}

func lkey(k int) ledger.LedgerKey {
	var r ledger.LedgerKey
	// keys share a long prefix and differ in the last byte: forced to sit next to each other in the tree
	for i := range r {
		r[i] = 0xA0
	}
	r[31] = byte('a' + k)
	return r
}

type lop struct {
	Op string `json:"op"`
	K  int    `json:"k,omitempty"`
	V  int    `json:"v,omitempty"`
}

func (o lop) String() string {
	switch o.Op {
	case "commit", "reopen":
		return o.Op
	case "setF", "set", "rmwF", "rmw":
		return fmt.Sprintf("%s(%c,%d)", o.Op, 'a'+o.K, o.V)
	}
	return fmt.Sprintf("%s(%c)", o.Op, 'a'+o.K)
}

func c18Alphabet(nkeys, nvals int) []lop {
	var a []lop
	for _, sfx := range []string{"F", ""} {
		for k := 0; k < nkeys; k++ {
			a = append(a, lop{Op: "get" + sfx, K: k})
		}
		for k := 0; k < nkeys; k++ {
			for v := 1; v <= nvals; v++ {
				a = append(a, lop{Op: "set" + sfx, K: k, V: v})
			}
		}
		// read-modify-write on the SAME object: Get, change the returned item in place, Set that very pointer (what the
		// controllers do with accounts, delegatees, rewards); value 2 only, to keep the alphabet small
		for k := 0; k < nkeys; k++ {
			a = append(a, lop{Op: "rmw" + sfx, K: k, V: 2})
		}
		for k := 0; k < nkeys; k++ {
			a = append(a, lop{Op: "del" + sfx, K: k})
		}
		for k := 0; k < nkeys; k++ {
			a = append(a, lop{Op: "cancelSet" + sfx, K: k})
		}
		for k := 0; k < nkeys; k++ {
			a = append(a, lop{Op: "cancelDel" + sfx, K: k})
		}
	}
	a = append(a, lop{Op: "commit"}, lop{Op: "reopen"})
	return a
}

// ---- the model ----

type overlay struct {
	w  map[int]int
	rm map[int]int // multiset
}

func newOverlay() *overlay { return &overlay{w: map[int]int{}, rm: map[int]int{}} }

type lmodel struct {
	committed map[int]int
	history   []map[int]int // history[v-1] = content of version v
	F, M      *overlay
}

func newLModel() *lmodel {
	return &lmodel{committed: map[int]int{}, F: newOverlay(), M: newOverlay()}
}

func (m *lmodel) get(o *overlay, k int) (int, bool) {
	if v, ok := o.w[k]; ok {
		return v, true // the overlay's own latest write wins, also after a delete (re-creation)
	}
	if o.rm[k] > 0 {
		return 0, false
	}
	v, ok := m.committed[k]
	return v, ok
}

func (m *lmodel) del(o *overlay, k int) (int, bool) {
	v, ok := m.get(o, k)
	if !ok {
		return 0, false
	}
	delete(o.w, k)
	o.rm[k]++
	return v, true
}

func cloneMap(m map[int]int) map[int]int {
	r := map[int]int{}
	for k, v := range m {
		r[k] = v
	}
	return r
}

func (m *lmodel) commit() {
	for k, n := range m.F.rm {
		if n > 0 {
			delete(m.committed, k)
		}
	}
	for k, v := range m.F.w {
		m.committed[k] = v
	}
	m.history = append(m.history, cloneMap(m.committed))
	m.F = newOverlay()
	m.M = newOverlay()
}

func (m *lmodel) key() string {
	var sb strings.Builder
	dump := func(mm map[int]int) {
		ks := []int{}
		for k := range mm {
			ks = append(ks, k)
		}
		sort.Ints(ks)
		for _, k := range ks {
			if mm[k] != 0 {
				fmt.Fprintf(&sb, "%d=%d,", k, mm[k])
			}
		}
		sb.WriteByte('|')
	}
	dump(m.committed)
	for _, h := range m.history {
		dump(h)
	}
	sb.WriteByte('#')
	dump(m.F.w)
	dump(m.F.rm)
	dump(m.M.w)
	dump(m.M.rm)
	return sb.String()
}

// ---- driving the implementation ----

type lrun struct {
	dir   string
	led   *ledger.FinalityLedger[*litem]
	m     *lmodel
	nkeys int
	trace []string
	roots []string
	trans int
}

func openLedger(dir string) (*ledger.FinalityLedger[*litem], error) {
	l, xerr := ledger.NewFinalityLedger[*litem]("c18", dir, 128, func() *litem { return &litem{} })
	if xerr != nil {
		return nil, xerr
	}
	return l, nil
}

func (r *lrun) fail(kind, site, format string, a ...interface{}) *engine.Violation {
	return &engine.Violation{Property: "C18", Kind: kind, Site: site,
		Detail: fmt.Sprintf(format, a...) + "\n trace: " + strings.Join(r.trace, " ; ")}
}

func isNotFound(x xerrors.XError) bool { return x != nil && x == xerrors.ErrNotFoundResult }

func (r *lrun) cmpGet(name string, k int, it *litem, xerr xerrors.XError, mv int, mok bool, site string) *engine.Violation {
	if mok {
		if xerr != nil {
			return r.fail("read-mismatch", site, "%s(%c): model has value %d, implementation returned error %v", name, 'a'+k, mv, xerr)
		}
		if it == nil || int(it.V) != mv || it.K != lkey(k) {
			return r.fail("read-mismatch", site, "%s(%c): model has value %d, implementation returned %+v", name, 'a'+k, mv, it)
		}
		return nil
	}
	if xerr == nil {
		return r.fail("read-mismatch", site, "%s(%c): model says not-found, implementation returned %+v", name, 'a'+k, it)
	}
	if !isNotFound(xerr) {
		return r.fail("read-error", site, "%s(%c): expected not-found, implementation returned another error: %v", name, 'a'+k, xerr)
	}
	return nil
}

// siteOf gives a stable, abstract fingerprint of WHERE a sequence went wrong: the multiset-free
// "shape" of the operations on the key that misbehaved, within the current commit interval.
func (r *lrun) siteOf(ops []lop, upto int, k int, overlayF bool) string {
	var parts []string
	for i := upto; i >= 0; i-- {
		o := ops[i]
		if o.Op == "commit" || o.Op == "reopen" {
			break
		}
		isF := strings.HasSuffix(o.Op, "F")
		if o.K != k {
			continue
		}
		if isF != overlayF && !(o.Op == "delF" && !overlayF) {
			continue
		}
		parts = append([]string{strings.TrimSuffix(o.Op, "F")}, parts...)
	}
	ov := "mempool"
	if overlayF {
		ov = "consensus"
	}
	// collapse repeats
	var c []string
	for _, p := range parts {
		if len(c) == 0 || c[len(c)-1] != p {
			c = append(c, p)
		}
	}
	return ov + ":" + strings.Join(c, ">")
}

func (r *lrun) apply(ops []lop, i int) *engine.Violation {
	o := ops[i]
	r.trace = append(r.trace, o.String())
	r.trans++
	m := r.m
	k := lkey(o.K)
	switch o.Op {
	case "getF":
		it, xerr := r.led.GetFinality(k)
		mv, mok := m.get(m.F, o.K)
		return r.cmpGet("GetFinality", o.K, it, xerr, mv, mok, r.siteOf(ops, i, o.K, true))
	case "get":
		it, xerr := r.led.Get(k)
		mv, mok := m.get(m.M, o.K)
		return r.cmpGet("Get", o.K, it, xerr, mv, mok, r.siteOf(ops, i, o.K, false))
	case "setF":
		if xerr := r.led.SetFinality(&litem{K: k, V: byte(o.V)}); xerr != nil {
			return r.fail("op-error", "setF", "SetFinality error %v", xerr)
		}
		m.F.w[o.K] = o.V
	case "set":
		if xerr := r.led.Set(&litem{K: k, V: byte(o.V)}); xerr != nil {
			return r.fail("op-error", "set", "Set error %v", xerr)
		}
		m.M.w[o.K] = o.V
	case "rmwF":
		it, xerr := r.led.GetFinality(k)
		if xerr == nil && it != nil {
			it.V = byte(o.V)
		} else {
			it = &litem{K: k, V: byte(o.V)}
		}
		if xerr := r.led.SetFinality(it); xerr != nil {
			return r.fail("op-error", "rmwF", "SetFinality error %v", xerr)
		}
		m.F.w[o.K] = o.V
	case "rmw":
		it, xerr := r.led.Get(k)
		if xerr == nil && it != nil {
			it.V = byte(o.V)
		} else {
			it = &litem{K: k, V: byte(o.V)}
		}
		if xerr := r.led.Set(it); xerr != nil {
			return r.fail("op-error", "rmw", "Set error %v", xerr)
		}
		m.M.w[o.K] = o.V
	case "delF":
		it, xerr := r.led.DelFinality(k)
		// implementation-documented: a consensus delete is mirrored into the mempool overlay
		m.del(m.M, o.K)
		mv, mok := m.del(m.F, o.K)
		return r.cmpGet("DelFinality", o.K, it, xerr, mv, mok, r.siteOf(ops, i, o.K, true))
	case "del":
		it, xerr := r.led.Del(k)
		mv, mok := m.del(m.M, o.K)
		return r.cmpGet("Del", o.K, it, xerr, mv, mok, r.siteOf(ops, i, o.K, false))
	case "cancelSetF":
		_ = r.led.CancelSetFinality(k)
		delete(m.F.w, o.K)
	case "cancelSet":
		_ = r.led.CancelSet(k)
		delete(m.M.w, o.K)
	case "cancelDelF":
		_ = r.led.CancelDelFinality(k)
		if m.F.rm[o.K] > 0 {
			m.F.rm[o.K]--
		}
	case "cancelDel":
		_ = r.led.CancelDel(k)
		if m.M.rm[o.K] > 0 {
			m.M.rm[o.K]--
		}
	case "commit":
		return r.commit()
	case "reopen":
		return r.reopen()
	}
	return nil
}

func (r *lrun) commit() *engine.Violation {
	pendW, pendR := len(r.m.F.w), 0
	for _, n := range r.m.F.rm {
		if n > 0 {
			pendR++
		}
	}
	root, ver, xerr := r.led.Commit()
	if xerr != nil {
		return r.fail("commit-error", "commit", "Commit error: %v", xerr)
	}
	r.m.commit()
	r.roots = append(r.roots, hex.EncodeToString(root))
	if int(ver) != len(r.m.history) || r.led.Version() != ver {
		return r.fail("version-mismatch", "commit", "commit returned version %d (Version()=%d), model expects %d", ver, r.led.Version(), len(r.m.history))
	}
	if v := r.checkCommitted(fmt.Sprintf("commit[w=%d,rm=%d]", min(pendW, 1), min(pendR, 1))); v != nil {
		return v
	}
	return r.checkHistory("after-commit")
}

func min(a, b int) int {
	if a < b {
		return a
	}
	return b
}

func (r *lrun) reopen() *engine.Violation {
	if xerr := r.led.Close(); xerr != nil {
		return r.fail("op-error", "close", "Close: %v", xerr)
	}
	l, err := openLedger(r.dir)
	if err != nil {
		return r.fail("reopen-error", "reopen", "reopen failed: %v", err)
	}
	r.led = l
	r.m.F, r.m.M = newOverlay(), newOverlay()
	if int(r.led.Version()) != len(r.m.history) {
		return r.fail("version-mismatch", "reopen", "after reopen Version()=%d, model expects %d", r.led.Version(), len(r.m.history))
	}
	if v := r.checkCommitted("reopen"); v != nil {
		return v
	}
	return r.checkHistory("after-reopen")
}

func (r *lrun) iterEq(it func(func(*litem) xerrors.XError) xerrors.XError, want map[int]int) (string, bool) {
	got := map[int]int{}
	var order []byte
	if xerr := it(func(i *litem) xerrors.XError {
		for k := 0; k < r.nkeys; k++ {
			if i.K == lkey(k) {
				got[k] = int(i.V)
			}
		}
		order = append(order, i.K[31])
		return nil
	}); xerr != nil {
		return "iterate error: " + xerr.Error(), false
	}
	if !sort.SliceIsSorted(order, func(a, b int) bool { return order[a] < order[b] }) {
		return fmt.Sprintf("iteration not in key order: %q", order), false
	}
	if fmt.Sprint(got) != fmt.Sprint(want) {
		return fmt.Sprintf("iteration gives %v, model %v", got, want), false
	}
	return "", true
}

// checkCommitted: non-caching committed reads and iteration equal the model's committed map.
func (r *lrun) checkCommitted(site string) *engine.Violation {
	for k := 0; k < r.nkeys; k++ {
		it, xerr := r.led.Read(lkey(k))
		mv, mok := r.m.committed[k]
		if v := r.cmpGet("Read", k, it, xerr, mv, mok, site); v != nil {
			v.Kind = "committed-mismatch"
			return v
		}
	}
	if msg, ok := r.iterEq(r.led.IterateReadAllItems, r.m.committed); !ok {
		return r.fail("committed-mismatch", site, "IterateReadAllItems: %s", msg)
	}
	if msg, ok := r.iterEq(r.led.IterateReadAllFinalityItems, r.m.committed); !ok {
		return r.fail("committed-mismatch", site, "IterateReadAllFinalityItems: %s", msg)
	}
	return nil
}

// checkHistory: every earlier version reads back exactly as committed; scribbling on a historical
// view does not alter it; a version beyond the latest is refused.
func (r *lrun) checkHistory(site string) *engine.Violation {
	for ver := 1; ver <= len(r.m.history); ver++ {
		want := r.m.history[ver-1]
		il, xerr := r.led.ImmutableLedgerAt(int64(ver), 0)
		if xerr != nil {
			return r.fail("history-mismatch", site, "ImmutableLedgerAt(%d) error: %v (latest %d)", ver, xerr, len(r.m.history))
		}
		for k := 0; k < r.nkeys; k++ {
			it, xerr := il.Read(lkey(k))
			mv, mok := want[k]
			if v := r.cmpGet(fmt.Sprintf("At(%d).Read", ver), k, it, xerr, mv, mok, site); v != nil {
				v.Kind = "history-mismatch"
				return v
			}
			it, xerr = il.Get(lkey(k))
			if v := r.cmpGet(fmt.Sprintf("At(%d).Get", ver), k, it, xerr, mv, mok, site); v != nil {
				v.Kind = "history-mismatch"
				return v
			}
		}
		if msg, ok := r.iterEq(il.IterateReadAllItems, want); !ok {
			return r.fail("history-mismatch", site, "At(%d).IterateReadAllItems: %s", ver, msg)
		}
		// scribble on the view (the vm_call path does this) – must stay private to the view
		_ = il.Set(&litem{K: lkey(0), V: 9})
		_, _ = il.Del(lkey(1))
	}
	if len(r.m.history) > 0 {
		ver := len(r.m.history)
		il, xerr := r.led.ImmutableLedgerAt(int64(ver), 0)
		if xerr == nil {
			for k := 0; k < r.nkeys; k++ {
				it, xerr := il.Read(lkey(k))
				mv, mok := r.m.history[ver-1][k]
				if v := r.cmpGet(fmt.Sprintf("At(%d).Read-after-scribble", ver), k, it, xerr, mv, mok, site); v != nil {
					v.Kind = "history-mismatch"
					return v
				}
			}
		}
		if v := r.checkCommitted(site + "+scribble"); v != nil {
			return v
		}
	}
	if _, xerr := r.led.ImmutableLedgerAt(int64(len(r.m.history)+1), 0); xerr == nil {
		return r.fail("history-mismatch", site, "ImmutableLedgerAt(latest+1=%d) succeeded", len(r.m.history)+1)
	}
	return nil
}

func (r *lrun) implKey() string {
	f, m := r.led.VerifDump()
	h := sha256.New()
	dump := func(o ledger.VerifOverlay) {
		for _, mm := range []map[ledger.LedgerKey][]byte{o.Got, o.Updated} {
			var ks []string
			for k, v := range mm {
				ks = append(ks, string(k[31:])+"="+string(v[32:]))
			}
			sort.Strings(ks)
			fmt.Fprintf(h, "%q|", ks)
		}
		var rk []string
		for _, k := range o.Removed {
			rk = append(rk, string(k[31:]))
		}
		sort.Strings(rk)
		fmt.Fprintf(h, "%q#", rk)
	}
	dump(f)
	dump(m)
	fmt.Fprintf(h, "%v", r.roots)
	return hex.EncodeToString(h.Sum(nil)[:8])
}

var c18seq int64

// runSeq executes ops on a fresh ledger. It returns the first violation, the canonical state key
// reached BEFORE the closing probes, and the number of implementation operations executed.
func c18RunSeq(ops []lop, nkeys int, closing bool) (viol *engine.Violation, stateKey string, trans int, roots []string) {
	dir := filepath.Join(tmpRoot(), fmt.Sprintf("c18-%d", atomic.AddInt64(&c18seq, 1)))
	_ = os.MkdirAll(dir, 0o755)
	defer os.RemoveAll(dir)
	l, err := openLedger(dir)
	if err != nil {
		return &engine.Violation{Property: "C18", Kind: "harness", Site: "open", Detail: err.Error()}, "", 0, nil
	}
	r := &lrun{dir: dir, led: l, m: newLModel(), nkeys: nkeys}
	defer func() {
		if r.led != nil {
			_ = r.led.Close()
		}
	}()
	defer func() {
		if p := recover(); p != nil {
			buf := make([]byte, 2048)
			n := runtime.Stack(buf, false)
			viol = r.fail("panic", "ledger", "panic: %v\n%s", p, buf[:n])
			trans = r.trans
		}
	}()
	for i := range ops {
		if v := r.apply(ops, i); v != nil {
			return v, "", r.trans, r.roots
		}
	}
	stateKey = r.m.key() + "/" + r.implKey()
	if closing {
		// closing probes: every overlay read, committed reads, then commit + reopen + full history
		all := append([]lop{}, ops...)
		for k := 0; k < nkeys; k++ {
			all = append(all, lop{Op: "getF", K: k}, lop{Op: "get", K: k})
		}
		all = append(all, lop{Op: "commit"})
		for k := 0; k < nkeys; k++ {
			all = append(all, lop{Op: "getF", K: k}, lop{Op: "get", K: k})
		}
		all = append(all, lop{Op: "reopen"})
		for k := 0; k < nkeys; k++ {
			all = append(all, lop{Op: "getF", K: k}, lop{Op: "get", K: k})
		}
		for i := len(ops); i < len(all); i++ {
			if v := r.apply(all, i); v != nil {
				return v, stateKey, r.trans, r.roots
			}
		}
	}
	return nil, stateKey, r.trans, r.roots
}

// ---- the check ----

type c18Case struct {
	Mode   string `json:"mode"`             // "dfs" | "bfs" | "order"
	Prefix []lop  `json:"prefix,omitempty"` // dfs: fixed prefix, all completions up to Len
	Len    int    `json:"len,omitempty"`
	Depth  int    `json:"depth,omitempty"` // bfs
	Seq    []lop  `json:"seq,omitempty"`   // explicit sequence (replay)
}

type c18 struct {
	tier  string
	cases []c18Case
	alpha []lop
}

func init() { engine.Register("C18", func() engine.Check { return &c18{} }) }

func (c *c18) ID() string { return "C18" }
func (c *c18) Meta() engine.Meta {
	return engine.Meta{
		Category:    "model_checking",
		CaseTimeout: 2 * time.Hour,
		LevelName:   "0 = insertion-order determinism, 1 = unpruned DFS of all op sequences of the tier's length, 2 = BFS with state de-duplication to the tier's depth",
		Technique:   "explicit-state exploration of operation sequences on the real FinalityLedger vs a map model (unpruned DFS + BFS with state hashing)",
		Rule: "alphabet {get,set(2 values),del,cancelSet,cancelDel} x {consensus,mempool overlay} x 2 adjacent keys + read-modify-write on the SAME item object (Get, change it in place, Set that pointer; value 2) per overlay and key + commit + reopen (30 ops); " +
			"every op's return value is compared with a map-with-two-overlays model, every commit/reopen re-reads the committed map and EVERY historical version (reads, iteration, scribbling on the view, latest+1 refused); " +
			"each explored sequence ends with closing probes (all overlay reads, commit, reopen, full history). " +
			"A case is one DFS prefix shard or the BFS; evaluations counts cases, counters.sequences counts executed sequences; non-trivial = sequence shard in which a delete, a re-creation or a commit with pending changes occurred.",
		Assumptions: []string{
			"IAVL and goleveldb are trusted substrate; crash/torn-write behaviour of the store is C08's subject, not C18's",
			"cancelSet/cancelDel semantics are not fixed by the statement; the model follows the implementation's documented behaviour (drop the pending write / drop one tombstone); likewise the mirroring of a consensus delete into the mempool overlay",
			"bounds: 2 keys, 2 values, sequence length / BFS depth as reported; <=3 commits and <=2 reopens per BFS path",
		},
	}
}

func (c *c18) Prepare(tier string, seed int64) error {
	c.tier = tier
	c.alpha = c18Alphabet(2, 2)
	dfsLen, bfsDepth := 3, 5
	if tier == "thorough" {
		dfsLen, bfsDepth = 4, 7
	}
	c.cases = nil
	c.cases = append(c.cases, c18Case{Mode: "bfs", Depth: bfsDepth})
	c.cases = append(c.cases, c18Case{Mode: "order"})
	// DFS shards: one per first op
	for _, a := range c.alpha {
		if tier == "thorough" {
			for _, b := range c.alpha {
				c.cases = append(c.cases, c18Case{Mode: "dfs", Prefix: []lop{a, b}, Len: dfsLen})
			}
		} else {
			c.cases = append(c.cases, c18Case{Mode: "dfs", Prefix: []lop{a}, Len: dfsLen})
		}
	}
	return nil
}

func (c *c18) NumCases() int { return len(c.cases) }
func (c *c18) Level(i int) int {
	switch c.cases[i].Mode {
	case "order":
		return 0
	case "dfs":
		return 1
	}
	return 2
}
func (c *c18) Desc(i int) json.RawMessage { b, _ := json.Marshal(c.cases[i]); return b }

func seqNontrivial(ops []lop) bool {
	hasDel, hasSetAfterDel, commitPending := false, false, false
	pending := false
	for _, o := range ops {
		switch o.Op {
		case "delF", "del":
			hasDel = true
			pending = true
		case "setF", "set", "rmwF", "rmw":
			if hasDel {
				hasSetAfterDel = true
			}
			pending = true
		case "commit":
			if pending {
				commitPending = true
			}
			pending = false
		}
	}
	return hasDel || hasSetAfterDel || commitPending
}

func (c *c18) RunDesc(desc json.RawMessage) engine.Result {
	var cs c18Case
	_ = json.Unmarshal(desc, &cs)
	if c.alpha == nil {
		c.alpha = c18Alphabet(2, 2)
	}
	res := engine.Result{}
	states := map[string]struct{}{}
	addViol := func(v *engine.Violation, seq []lop) {
		if v == nil {
			return
		}
		for _, old := range res.Violations {
			if old.Fingerprint() == v.Fingerprint() {
				return
			}
		}
		cc, _ := json.Marshal(c18Case{Mode: "seq", Seq: seq})
		v.Case = cc
		res.Violations = append(res.Violations, *v)
	}
	switch cs.Mode {
	case "seq":
		v, key, tr, _ := c18RunSeq(cs.Seq, 2, true)
		res.Transitions = tr
		states[key] = struct{}{}
		addViol(v, cs.Seq)
		res.Count("sequences", 1)
	case "order":
		// all insertion orders of 4 keys into the consensus overlay, in one and in two commits:
		// root hash and version must not depend on the order (map-iteration / call order).
		perm := [][]int{}
		var gen func(a []int, n int)
		gen = func(a []int, n int) {
			if n == 1 {
				perm = append(perm, append([]int{}, a...))
				return
			}
			for i := 0; i < n; i++ {
				gen(a, n-1)
				if n%2 == 0 {
					a[i], a[n-1] = a[n-1], a[i]
				} else {
					a[0], a[n-1] = a[n-1], a[0]
				}
			}
		}
		gen([]int{0, 1, 2, 3}, 4)
		ref := ""
		for _, p := range perm {
			var seq []lop
			for _, k := range p {
				seq = append(seq, lop{Op: "setF", K: k, V: 1})
			}
			seq = append(seq, lop{Op: "commit"})
			for _, k := range p {
				seq = append(seq, lop{Op: "setF", K: k, V: 2})
			}
			seq = append(seq, lop{Op: "delF", K: p[0]}, lop{Op: "commit"})
			v, key, tr, roots := c18RunSeq4(seq)
			res.Transitions += tr
			states[key] = struct{}{}
			addViol(v, seq)
			rs := fmt.Sprint(roots)
			// the deleted key differs per permutation, so compare only the first commit's root
			if len(roots) > 0 {
				rs = roots[0]
			}
			if ref == "" {
				ref = rs
			} else if rs != ref {
				addViol(&engine.Violation{Property: "C18", Kind: "root-depends-on-order", Site: "commit", Detail: fmt.Sprintf("root hash after committing the same 4 items differs with insertion order %v: %s vs %s", p, rs, ref)}, seq)
			}
			res.Count("sequences", 1)
		}
		res.Nontrivial = true
		res.Outcome = "order"
	case "dfs":
		var rec func(seq []lop)
		nt := false
		rec = func(seq []lop) {
			if len(seq) == cs.Len {
				v, key, tr, _ := c18RunSeq(seq, 2, true)
				res.Transitions += tr
				states[key] = struct{}{}
				res.Count("sequences", 1)
				if seqNontrivial(seq) {
					nt = true
					res.Count("sequences_nontrivial", 1)
				}
				addViol(v, seq)
				return
			}
			for _, o := range c.alpha {
				rec(append(append([]lop{}, seq...), o))
			}
		}
		rec(cs.Prefix)
		res.Nontrivial = nt
		res.Outcome = "dfs"
		smp, _ := json.Marshal(map[string]interface{}{"mode": "dfs", "prefix": fmt.Sprint(cs.Prefix), "len": cs.Len})
		res.Sample = smp
	case "bfs":
		c.bfs(cs.Depth, &res, states, addViol)
		res.Nontrivial = true
		res.Outcome = "bfs"
	}
	for k := range states {
		if k != "" {
			res.States = append(res.States, shortHash(k))
		}
	}
	return res
}

// 4-key variant used by the order test
func c18RunSeq4(seq []lop) (*engine.Violation, string, int, []string) {
	return c18RunSeq(seq, 4, false)
}

func shortHash(s string) string {
	h := sha256.Sum256([]byte(s))
	return hex.EncodeToString(h[:8])
}

func (c *c18) bfs(depth int, res *engine.Result, states map[string]struct{}, addViol func(*engine.Violation, []lop)) {
	type node struct{ path []lop }
	count := func(p []lop, op string) int {
		n := 0
		for _, o := range p {
			if o.Op == op {
				n++
			}
		}
		return n
	}
	seen := map[string]struct{}{}
	_, k0, _, _ := c18RunSeq(nil, 2, false)
	seen[k0] = struct{}{}
	frontier := []node{{}}
	var mu sync.Mutex
	par := 12
	if n := runtime.NumCPU(); n < par {
		par = n
	}
	pool, err := engine.NewPool("C18", par)
	if err != nil {
		res.Err = err.Error()
		return
	}
	defer pool.Close()
	var samplePath []lop
	for d := 1; d <= depth && len(frontier) > 0; d++ {
		type job struct {
			path []lop
		}
		var jobs []job
		for _, nd := range frontier {
			for _, o := range c.alpha {
				if o.Op == "commit" && count(nd.path, "commit") >= 3 {
					continue
				}
				if o.Op == "reopen" && count(nd.path, "reopen") >= 2 {
					continue
				}
				jobs = append(jobs, job{append(append([]lop{}, nd.path...), o)})
			}
		}
		type out struct {
			path []lop
			key  string
			v    *engine.Violation
			tr   int
		}
		outs := make([]out, len(jobs))
		reqs := make([]json.RawMessage, len(jobs))
		for i := range jobs {
			reqs[i], _ = json.Marshal(jobs[i].path)
		}
		resps, err := pool.Map(reqs)
		if err != nil {
			res.Err = err.Error()
			return
		}
		for i := range jobs {
			var er c18EvalResp
			if err := json.Unmarshal(resps[i], &er); err != nil {
				res.Err = "bad eval response: " + err.Error()
				return
			}
			outs[i] = out{jobs[i].path, er.Key, er.V, er.Tr}
		}
		var next []node
		for _, o := range outs {
			mu.Lock()
			res.Transitions += o.tr
			res.Count("sequences", 1)
			res.Count("bfs_transitions", 1)
			mu.Unlock()
			if o.v != nil {
				addViol(o.v, o.path)
				continue // do not expand beyond a violating state
			}
			if _, ok := seen[o.key]; !ok {
				seen[o.key] = struct{}{}
				next = append(next, node{o.path})
				samplePath = o.path
			}
		}
		res.Count(fmt.Sprintf("bfs_new_states_depth_%d", d), len(next))
		frontier = next
	}
	for k := range seen {
		states[k] = struct{}{}
	}
	res.Count("bfs_states", len(seen))
	smp, _ := json.Marshal(map[string]interface{}{"mode": "bfs", "depth": depth, "a_deepest_new_state_path": fmt.Sprint(samplePath)})
	res.Sample = smp
}

type c18EvalResp struct {
	Key string            `json:"k"`
	V   *engine.Violation `json:"v,omitempty"`
	Tr  int               `json:"t"`
}

// Eval runs one sequence (with closing probes) in a helper process.
func (c *c18) Eval(req json.RawMessage) json.RawMessage {
	var seq []lop
	_ = json.Unmarshal(req, &seq)
	v, key, tr, _ := c18RunSeq(seq, 2, true)
	b, _ := json.Marshal(c18EvalResp{Key: key, V: v, Tr: tr})
	return b
}

func (c *c18) Guards(a *engine.Agg, complete bool) []string {
	var g []string
	if a.Counters["sequences"] < 1000 {
		g = append(g, fmt.Sprintf("only %d sequences executed", a.Counters["sequences"]))
	}
	if complete && a.Counters["bfs_states"] < 200 {
		g = append(g, fmt.Sprintf("BFS reached only %d states", a.Counters["bfs_states"]))
	}
	return g
}

var _ = bytes.Compare
