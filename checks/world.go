package checks

// The shared scenario material: genesis variants, a dense default history that exercises every
// transaction type and every block-level mechanism within 8 blocks, a menu of transaction templates
// (valid and failing) and the slot/deviation machinery over histories.

import (
	"fmt"

	"verif/mc/sim"
)

const (
	// runtime: SLOAD(0)+1 -> SSTORE(0); return it.   init: copy runtime, return it.
	counterRuntime = "600054600101806000556000526020 6000f3"
	counterInit    = "6012600c60003960126000f3" + "6000546001018060005560005260206000f3"
	// runtime that always reverts with 1 byte of data
	revertInit = "6005600c60003960056000f3" + "60016000fd"
)

func genesis3() *sim.Genesis {
	return &sim.Genesis{
		Vals: []string{"V0", "V1", "V2"}, Powers: []int64{12, 10, 8},
		Holders: map[string]string{"V0": "1000R", "V1": "1000R", "V2": "1000R", "V3": "1000R", "U0": "1000R", "U1": "1000R", "W": "1000R", "P": "2000000000000000004"},
	}
}

func genesis1() *sim.Genesis {
	return &sim.Genesis{
		Vals: []string{"V0"}, Powers: []int64{10},
		Holders: map[string]string{"V0": "1000R", "V1": "1000R", "V2": "1000R", "V3": "1000R", "U0": "1000R", "U1": "1000R", "W": "1000R", "P": "2000000000000000004"},
	}
}

// genesis4L: four equal validators and the stake limiter switched on (33% / 33%).
func genesis4L() *sim.Genesis {
	return &sim.Genesis{
		Vals: []string{"V0", "V1", "V2", "V3"}, Powers: []int64{10, 10, 10, 10},
		Holders: map[string]string{"V0": "1000R", "V1": "1000R", "V2": "1000R", "V3": "1000R", "U0": "1000R", "U1": "1000R", "W": "1000R", "P": "2000000000000000004"},
		Params:  map[string]string{"maxValidatorCnt": "4", "maxUpdatableStakeRatio": "33", "maxIndividualStakeRatio": "33"},
	}
}

// genesis3s: small stakes matter: validator minimum 1 RIGO, up to 4 validators.
func genesis3s() *sim.Genesis {
	g := genesis3()
	g.Params = map[string]string{"minValidatorStake": "1000000000000000000", "maxValidatorCnt": "4"}
	return g
}

// genesis3R: genesis3 plus a holder R rich enough for amounts at the limits of the power arithmetic (2^60, 2^63, 2^64 RIGO).
func genesis3R() *sim.Genesis {
	g := genesis3()
	g.Holders["R"] = "2^250"
	return g
}

func genesisByName(n string) *sim.Genesis {
	switch n {
	case "g3s":
		return genesis3s()
	case "g1":
		return genesis1()
	case "g4L":
		return genesis4L()
	}
	return genesis3()
}

func blk(txs ...sim.TxSpec) sim.Block {
	return sim.Block{Opts: sim.BlockOpts{Proposer: "V0"}, Txs: txs}
}

func tr(from, to, amt string) sim.TxSpec {
	return sim.TxSpec{Type: "transfer", From: from, To: to, Amount: amt, Tag: fmt.Sprintf("transfer %s->%s %s", from, to, amt)}
}
func stk(from, to, amt string) sim.TxSpec {
	return sim.TxSpec{Type: "stake", From: from, To: to, Amount: amt, Tag: fmt.Sprintf("stake %s->%s %s", from, to, amt)}
}
func unstk(from, owner, to string, idx int) sim.TxSpec {
	return sim.TxSpec{Type: "unstake", From: from, StakeOwner: owner, StakeTo: to, StakeIdx: idx, Tag: fmt.Sprintf("unstake by %s of %s's stake#%d@%s", from, owner, idx, to)}
}
func wdr(from, amt string) sim.TxSpec {
	return sim.TxSpec{Type: "withdraw", From: from, ReqAmt: amt, Tag: fmt.Sprintf("withdraw %s %s", from, amt)}
}
func prop(from string, startOff, period, applyOff int64, opts ...string) sim.TxSpec {
	return sim.TxSpec{Type: "proposal", From: from, PropStartOff: startOff, PropPeriod: period, PropApplyOff: applyOff, PropOptions: opts,
		Tag: fmt.Sprintf("proposal by %s start+%d period %d apply+%d %v", from, startOff, period, applyOff, opts)}
}
func vote(from string, idx int, choice int32) sim.TxSpec {
	return sim.TxSpec{Type: "vote", From: from, PropIdx: idx, Choice: choice, Tag: fmt.Sprintf("vote %s prop#%d choice %d", from, idx, choice)}
}
func deploy(from, code, amt string) sim.TxSpec {
	return sim.TxSpec{Type: "deploy", From: from, Data: clean(code), Amount: amt, Tag: fmt.Sprintf("deploy by %s (%d bytes) value %s", from, len(clean(code))/2, amt)}
}
func call(from, to, data, amt string) sim.TxSpec {
	return sim.TxSpec{Type: "call", From: from, To: to, Data: data, Amount: amt, Tag: fmt.Sprintf("call %s->%s data=%s value %s", from, to, data, amt)}
}
func setdoc(from, name, url string) sim.TxSpec {
	return sim.TxSpec{Type: "setdoc", From: from, Name: name, URL: url, Tag: fmt.Sprintf("setdoc %s %q", from, name)}
}

// chk: the template reaches the mempool check only (CheckTx at its position in the block), it is never delivered.
func chk(s sim.TxSpec) sim.TxSpec {
	s.CheckOnly = true
	s.Tag = "CheckTx-only " + s.Tag
	return s
}

func clean(s string) string {
	out := make([]byte, 0, len(s))
	for i := 0; i < len(s); i++ {
		if s[i] != ' ' {
			out = append(out, s[i])
		}
	}
	return string(out)
}

func with(s sim.TxSpec, f func(*sim.TxSpec), tag string) sim.TxSpec {
	f(&s)
	s.Tag = s.Tag + " [" + tag + "]"
	return s
}

// denseHistory: 8 blocks that touch all seven ledgers and the EVM, change validator membership,
// pass a governance proposal that changes the gas price, unbond and refund stakes, issue and
// withdraw rewards.  Blocks 1–2 are the warm-up in which the genesis validator set becomes known.
func denseHistory(g *sim.Genesis) sim.History {
	return sim.History{Gen: g, Blocks: []sim.Block{
		blk(tr("U0", "U1", "5R"), stk("U0", "V1", "3R"), stk("V3", "V3", "9R")),
		blk(setdoc("U1", "alice", "http://a"), deploy("U0", counterInit, "0"), tr("W", "X", "1R"), deploy("W", revertInit, "0")),
		blk(prop("V0", 1, 1, 1, `{"gasPrice":"4"}`), call("U1", "contract:0", "", "0"), stk("U1", "V3", "2R")),
		blk(vote("V0", 0, 0), vote("V1", 0, 0), unstk("U0", "U0", "V1", 0)),
		blk(wdr("V0", "7"), with(tr("W", "contract:0", "0"), func(s *sim.TxSpec) { s.Gas = 60000 }, "gas 60000"), vote("V3", 0, 0), vote("V2", 0, 0)),
		blk(tr("U0", "U1", "1R"), unstk("V3", "V3", "V3", 0)),
		blk(tr("U1", "U0", "2R"), call("U0", "contract:0", "", "0")),
		blk(tr("X", "W", "1")),
	}}
}

func blkO(o sim.BlockOpts, txs ...sim.TxSpec) sim.Block {
	if o.Proposer == "" {
		o.Proposer = "V0"
	}
	return sim.Block{Opts: o, Txs: txs}
}

// smallStakeHistory: power-1 stakes, misbehaviour evidence (stakes too small to be reduced are
// forfeited), repeated evidence, a validator missing signatures until it is jailed, re-staking
// on a delegatee that lost everything.  Used with genesis3s.
func smallStakeHistory(g *sim.Genesis) sim.History {
	return sim.History{Gen: g, Blocks: []sim.Block{
		blk(stk("W", "W", "1R"), stk("U0", "V1", "1R"), stk("U1", "V2", "3R")),
		blk(stk("U0", "W", "1R"), stk("U0", "V1", "4R")),
		blkO(sim.BlockOpts{Evidence: []string{"W"}}, tr("U0", "U1", "1R")),
		blkO(sim.BlockOpts{Evidence: []string{"V1"}, Absent: []string{"V2"}}, prop("V0", 1, 2, 1, `{"slashRatio":"33"}`)),
		blkO(sim.BlockOpts{Absent: []string{"V2"}}, stk("W", "W", "1R"), vote("V0", 0, 0), vote("V1", 0, 0)),
		blkO(sim.BlockOpts{Evidence: []string{"V1", "V1"}}, stk("U1", "W", "1R"), vote("V2", 0, 0)),
		blkO(sim.BlockOpts{Absent: []string{"V1"}}, unstk("U1", "U1", "V2", 0), wdr("V0", "7")),
		blkO(sim.BlockOpts{Evidence: []string{"X"}}, stk("U0", "V1", "1R")),
		blk(tr("U1", "U0", "1")),
	}}
}

// txMenu: templates used as deviations (replace / insert). Entry order: simplest first.
func txMenu() []sim.TxSpec {
	m := []sim.TxSpec{
		tr("U0", "U1", "1"),
		tr("W", "U0", "bal-fee"),
		stk("U1", "V0", "1R"),
		stk("W", "W", "2R"),
		unstk("U0", "U0", "V1", 0),
		unstk("V1", "V1", "V1", 0),
		unstk("V2", "V2", "V2", 0),
		wdr("V1", "1"),
		prop("V1", 1, 1, 1, `{"slashRatio":"60"}`),
		vote("V1", 0, 0),
		call("W", "contract:0", "", "0"),
		setdoc("W", "w", "http://w"),
		// failing ones
		with(tr("U0", "U1", "1"), func(s *sim.TxSpec) { s.BadSig = "flip" }, "bad signature"),
		with(tr("U0", "U1", "1"), func(s *sim.TxSpec) { s.NonceOff = 1 }, "nonce+1"),
		tr("U1", "U0", "bal-fee+1"),
		with(tr("U0", "U1", "1"), func(s *sim.TxSpec) { s.Price = "p+1" }, "price+1"),
		with(tr("U0", "U1", "1"), func(s *sim.TxSpec) { s.GasExpr = "min-1" }, "gas below minimum"),
		stk("U0", "X", "1R"),
		stk("U0", "V0", "1R+1"),
		unstk("W", "U0", "V1", 0),
		wdr("W", "1"),
		prop("U0", 1, 1, 1, `{"gasPrice":"9"}`),
		vote("W", 0, 0),
		call("W", "contract:1", "", "0"),
	}
	return m
}

// ---- deviations over histories ----

type slotKind int

const (
	slotTx       slotKind = iota // an existing transaction position: keep | drop | replace by menu[j]
	slotAppend                   // end of a block: nothing | menu[j]
	slotAbsent                   // who did not sign the previous block
	slotEvidence                 // misbehaviour evidence delivered with this block
	slotProposer                 // proposer of this block
)

type slot struct {
	kind  slotKind
	block int
	pos   int
	n     int // menu size including the default (entry 0)
}

var absentMenu = [][]string{nil, {"V1"}, {"V2"}, {"V1", "V2"}}
var evidenceMenu = [][]string{nil, {"V1"}, {"X"}, {"V2"}, {"V1", "V1"}, {"V1", "V2"}, {"U0"}}
var proposerMenu = []string{"V0", "", "V1"}

type slotSet struct {
	slots []slot
	menu  []sim.TxSpec
}

func historySlots(h sim.History, menu []sim.TxSpec, withEnv bool) *slotSet {
	return historySlotsN(h, menu, withEnv, 1, true)
}

// historySlotsN: nAppend append slots per block (several inserted transactions in one block);
// txSlots=false leaves the default transactions untouched (no drop / replace).
func historySlotsN(h sim.History, menu []sim.TxSpec, withEnv bool, nAppend int, txSlots bool) *slotSet {
	ss := &slotSet{menu: menu}
	for b, bl := range h.Blocks {
		if txSlots {
			for p := range bl.Txs {
				ss.slots = append(ss.slots, slot{slotTx, b, p, 2 + len(menu)})
			}
		}
		for k := 0; k < nAppend; k++ {
			ss.slots = append(ss.slots, slot{slotAppend, b, k, 1 + len(menu)})
		}
		if withEnv {
			if b >= 1 {
				ss.slots = append(ss.slots, slot{slotAbsent, b, 0, len(absentMenu)})
			}
			ss.slots = append(ss.slots, slot{slotEvidence, b, 0, len(evidenceMenu)})
			ss.slots = append(ss.slots, slot{slotProposer, b, 0, len(proposerMenu)})
		}
	}
	return ss
}

func (ss *slotSet) sizes() []int {
	out := make([]int, len(ss.slots))
	for i, s := range ss.slots {
		out[i] = s.n
	}
	return out
}

type dev struct {
	Slot   int `json:"slot"`
	Choice int `json:"choice"`
}

// apply produces the deviated history.
func (ss *slotSet) apply(h sim.History, devs []dev) sim.History {
	n := h.Clone()
	drop := map[[2]int]bool{}
	for _, d := range devs {
		s := ss.slots[d.Slot]
		switch s.kind {
		case slotTx:
			if d.Choice == 1 {
				drop[[2]int{s.block, s.pos}] = true
			} else if d.Choice >= 2 {
				n.Blocks[s.block].Txs[s.pos] = ss.menu[d.Choice-2]
			}
		case slotAppend:
			if d.Choice >= 1 {
				n.Blocks[s.block].Txs = append(n.Blocks[s.block].Txs, ss.menu[d.Choice-1])
			}
		case slotAbsent:
			n.Blocks[s.block].Opts.Absent = absentMenu[d.Choice]
		case slotEvidence:
			n.Blocks[s.block].Opts.Evidence = evidenceMenu[d.Choice]
		case slotProposer:
			n.Blocks[s.block].Opts.Proposer = proposerMenu[d.Choice]
		}
	}
	if len(drop) > 0 {
		for b := range n.Blocks {
			var keep []sim.TxSpec
			for p, t := range n.Blocks[b].Txs {
				if !drop[[2]int{b, p}] {
					keep = append(keep, t)
				}
			}
			n.Blocks[b].Txs = keep
		}
	}
	return n
}

func (ss *slotSet) describe(devs []dev) []string {
	var out []string
	for _, d := range devs {
		s := ss.slots[d.Slot]
		switch s.kind {
		case slotTx:
			if d.Choice == 1 {
				out = append(out, fmt.Sprintf("block %d tx %d: dropped", s.block+1, s.pos))
			} else {
				out = append(out, fmt.Sprintf("block %d tx %d: replaced by <%s>", s.block+1, s.pos, ss.menu[d.Choice-2].String()))
			}
		case slotAppend:
			out = append(out, fmt.Sprintf("block %d: appended <%s>", s.block+1, ss.menu[d.Choice-1].String()))
		case slotAbsent:
			out = append(out, fmt.Sprintf("block %d: %v did not sign the previous block", s.block+1, absentMenu[d.Choice]))
		case slotEvidence:
			out = append(out, fmt.Sprintf("block %d: evidence against %v", s.block+1, evidenceMenu[d.Choice]))
		case slotProposer:
			out = append(out, fmt.Sprintf("block %d: proposer %q", s.block+1, proposerMenu[d.Choice]))
		}
	}
	return out
}

// enumDevs lists every deviation set with at most maxD deviations: the empty set, then all
// singles, then all pairs …  `core(slot, choice)` restricts which entries take part at D >= coreFrom.
func enumDevs(sizes []int, maxD int, coreFrom int, core func(slot, choice int) bool) (sets [][]dev, level []int) {
	sets = append(sets, nil)
	level = append(level, 0)
	var rec func(start int, cur []dev, d int)
	rec = func(start int, cur []dev, d int) {
		if len(cur) == d {
			sets = append(sets, append([]dev{}, cur...))
			level = append(level, d)
			return
		}
		for s := start; s < len(sizes); s++ {
			for c := 1; c < sizes[s]; c++ {
				if d >= coreFrom && core != nil && !core(s, c) {
					continue
				}
				rec(s+1, append(cur, dev{s, c}), d)
			}
		}
	}
	for d := 1; d <= maxD; d++ {
		rec(0, nil, d)
	}
	return
}
