package checks

import (
	"github.com/rigochain/rigo-go/ctrlers/gov/proposal"
	"github.com/rigochain/rigo-go/ctrlers/stake"
	ctrlertypes "github.com/rigochain/rigo-go/ctrlers/types"
)

type (
	acctT   = ctrlertypes.Account
	delegT  = stake.Delegatee
	stakeT  = stake.Stake
	rewardT = stake.Reward
	govT    = ctrlertypes.GovParams
	propT   = proposal.GovProposal
)
