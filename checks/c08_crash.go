package checks

// C08 — a crash at any point never bricks or forks the node.  Crash-point enumeration: for every
// block of every history of a family, the data directory is snapshotted after BeginBlock, after each
// DeliverTx, after EndBlock and after EVERY instrumented durable write of Commit; each snapshot is
// reopened, reconciled the way Tendermint's handshake does, the interrupted block is replayed and
// the remaining blocks must reproduce the never-crashed replica's app hashes.

import (
	"crypto/sha256"
	"encoding/hex"
	"encoding/json"
	"fmt"
	"io"
	"os"
	"path/filepath"
	"sort"
	"strings"

	"github.com/rigochain/rigo-go/libs/verifhook"
	tmtypes "github.com/tendermint/tendermint/types"

	"verif/mc/engine"
	"verif/mc/sim"
)

type c08Case struct {
	Variant string `json:"variant"`
	Devs    []dev  `json:"devs"`
	Block   int64  `json:"block"` // the block during which the process dies
	Lv      int    `json:"lv"`
	Only    string `json:"only,omitempty"` // replay: only this crash label
}

type c08 struct {
	tier  string
	cases []c08Case
	slots map[string]*slotSet
	base  map[string]sim.History
}

func init() { engine.Register("C08", func() engine.Check { return &c08{} }) }

func (c *c08) ID() string { return "C08" }
func (c *c08) Meta() engine.Meta {
	return engine.Meta{
		Category:  "fault_enumeration",
		LevelName: "number of deviations of the history from the default (each case = one history x one interrupted block, all its crash points)",
		Technique: "exhaustive crash-point enumeration (directory snapshot inside a hook after every durable write) over deviation-bounded histories on the real application, recovery compared with the never-crashed replica",
		Rule: "histories: the dense history (touches all seven ledgers and the EVM) in variants g3 / g4L, the small-stake history, a 12-block history that crosses the reward-hash record at version 10, plus every single appended deviation from a core menu; " +
			"for EVERY block of each history the process dies after BeginBlock, after each DeliverTx, after EndBlock, after each of Commit's durable writes, and after Commit has returned (7 ledger versions, reward-hash record when written, EVM state commit, trie commit, root batch, last-block context, last-block height). A crash = copy of the directory taken inside the hook (kill -9: completed writes survive). " +
			"Recovery oracle per snapshot: the application reopens; Info reports (h-1, hash(h-1)) or (h, hash(h)); the interrupted block replays with the same results; all remaining blocks produce the never-crashed replica's app hashes. " +
			"evaluations = (history, interrupted block) cases, counters.recoveries = snapshots recovered; snapshots whose on-disk image is byte-identical to an already recovered one are counted, not re-run. " +
			"distinct_nontrivial = cases with at least one crash point strictly inside Commit.",
		Assumptions: []string{
			"crash model = process death: a completed write(2) survives, nothing else does; torn writes inside one LevelDB batch and power-loss reordering of unsynced files are LevelDB's / IAVL's contract and below the hook granularity",
			"snapshots are taken synchronously inside the write hook; goleveldb runs no background compaction on kilobyte-sized stores",
		},
	}
}

func (c *c08) build() {
	c.slots = map[string]*slotSet{}
	c.base = map[string]sim.History{}
	for _, v := range []string{"g3", "g4L"} {
		h := denseHistory(genesisByName(v))
		c.base[v] = h
		c.slots[v] = historySlots(h, c07Menu(), false)
	}
	c.base["g3s"] = smallStakeHistory(genesis3s())
	c.slots["g3s"] = historySlots(c.base["g3s"], nil, false)
	c.base["g3pad"] = paddedHistory(genesis3())
	c.slots["g3pad"] = historySlots(c.base["g3pad"], nil, false)
}

func (c *c08) Prepare(tier string, seed int64) error {
	c.tier = tier
	c.build()
	c.cases = nil
	add := func(v string, d []dev, lv int) {
		for b := range c.base[v].Blocks {
			c.cases = append(c.cases, c08Case{Variant: v, Devs: d, Block: int64(b + 1), Lv: lv})
		}
	}
	add("g3", nil, 0)
	add("g3s", nil, 0)
	add("g3pad", nil, 0)
	add("g4L", nil, 0)
	vs := []string{"g3"}
	if tier == "thorough" {
		vs = []string{"g3", "g4L"}
	}
	for _, v := range vs {
		ss := c.slots[v]
		core := func(s, ch int) bool {
			if ss.slots[s].kind != slotAppend {
				return false
			}
			return tier == "thorough" || ss.slots[s].block%2 == 1
		}
		sets, _ := enumDevs(ss.sizes(), 1, 1, core)
		for _, d := range sets {
			if len(d) > 0 {
				add(v, d, 1)
			}
		}
	}
	return nil
}

func (c *c08) NumCases() int              { return len(c.cases) }
func (c *c08) Level(i int) int            { return c.cases[i].Lv }
func (c *c08) Desc(i int) json.RawMessage { return sim.MustJSON(c.cases[i]) }

func dirDigest(dir string) string {
	h := sha256.New()
	var files []string
	_ = filepath.Walk(dir, func(p string, info os.FileInfo, err error) error {
		if err == nil && !info.IsDir() && info.Name() != "LOCK" && info.Name() != "LOG" && info.Name() != "LOG.old" {
			files = append(files, p)
		}
		return nil
	})
	sort.Strings(files)
	for _, f := range files {
		rel, _ := filepath.Rel(dir, f)
		io.WriteString(h, rel)
		bz, _ := os.ReadFile(f)
		h.Write(bz)
	}
	return hex.EncodeToString(h.Sum(nil)[:10])
}

type snap struct {
	label string
	dir   string
}

func (c *c08) RunDesc(desc json.RawMessage) engine.Result {
	var cs c08Case
	_ = json.Unmarshal(desc, &cs)
	if c.slots == nil {
		c.build()
	}
	ss := c.slots[cs.Variant]
	h := ss.apply(c.base[cs.Variant], cs.Devs)
	descr := ss.describe(cs.Devs)
	res := engine.Result{}
	ref := reference(fmt.Sprintf("c08/%s/%v", cs.Variant, cs.Devs), h)
	if ref.Dead {
		res.Err = "reference run died: " + ref.DeadAt
		return res
	}
	if int(cs.Block) > len(ref.Hashes) {
		res.Err = "block beyond history"
		return res
	}

	// Phase 1: run up to and including block cs.Block, snapshotting inside it.
	base := tmpRoot()
	var snaps []snap
	var chain *sim.Chain
	inCommit := false
	ledgerN := 0
	take := func(label string) {
		d := sim.NewDir(base, "snap")
		if err := sim.CopyDir(chain.Dir, d); err == nil {
			snaps = append(snaps, snap{label, d})
		}
	}
	verifhook.Fn = func(label string) {
		if !inCommit {
			return
		}
		if label == "ledger.SaveVersion" {
			ledgerN++
			label = fmt.Sprintf("ledger.SaveVersion#%d", ledgerN)
		}
		take("commit:" + label)
	}
	defer func() { verifhook.Fn = nil }()
	hk := &sim.Hooks{NoStates: true, StopAtHeight: cs.Block}
	hk.Gap = func(ch *sim.Chain, hh int64, kind string, idx int) {
		chain = ch
		if hh != cs.Block {
			return
		}
		switch kind {
		case "post-begin":
			take("after-BeginBlock")
		case "post-tx":
			take("after-DeliverTx")
		case "post-end":
			take("after-EndBlock")
			inCommit = true
		case "post-commit":
			inCommit = false
			take("after-Commit")
		}
	}
	a := sim.Run(base, h, hk)
	verifhook.Fn = nil
	defer a.Cleanup()
	defer func() {
		for _, s := range snaps {
			_ = os.RemoveAll(s.dir)
		}
	}()
	if a.Err != "" || a.Chain.Dead {
		res.Err = "phase 1 failed: " + a.Err + a.Chain.DeadReason
		return res
	}
	res.Transitions = len(a.Chain.Log)

	// Phase 2: recover every distinct snapshot.
	seen := map[string]string{}
	var labels []string
	for _, s := range snaps {
		if cs.Only != "" && s.label != cs.Only {
			continue
		}
		labels = append(labels, s.label)
		res.Count("point:"+s.label, 1)
		dg := dirDigest(s.dir)
		if prev, ok := seen[dg]; ok {
			res.Count("snapshots_identical_to_a_recovered_one", 1)
			_ = prev
			continue
		}
		seen[dg] = s.label
		res.Count("recoveries", 1)
		if strings.HasPrefix(s.label, "commit:") {
			res.Nontrivial = true
			res.Count("recoveries_inside_commit", 1)
		}
		outcome, v := c.recover(s, cs, h, ref, a.Chain, descr)
		res.Count("outcome:"+outcome, 1)
		// (the byte-level digest of a snapshot is not reproducible across runs - LevelDB file contents carry
		// run-specific bytes - so the reported state is the crash point identity; the digest only de-duplicates)
		res.States = append(res.States, shortHash(fmt.Sprintf("%s/%v/%d/%s", cs.Variant, cs.Devs, cs.Block, s.label)))
		if v != nil {
			one := cs
			one.Only = s.label
			v.Case = sim.MustJSON(one)
			dup := false
			for _, o := range res.Violations {
				if o.Fingerprint() == v.Fingerprint() {
					dup = true
				}
			}
			if !dup {
				res.Violations = append(res.Violations, *v)
			}
		}
	}
	res.Outcome = "ok"
	if len(res.Violations) > 0 {
		res.Outcome = "violations"
	}
	if cs.Block == 3 && len(cs.Devs) == 0 {
		res.Sample = sim.MustJSON(map[string]interface{}{"variant": cs.Variant, "interrupted_block": cs.Block, "crash_points": labels})
	}
	return res
}

// recover reopens one snapshot and plays Tendermint's handshake + the rest of the history.
func (c *c08) recover(s snap, cs c08Case, h sim.History, ref *refRun, orig *sim.Chain, descr []string) (string, *engine.Violation) {
	hgt := cs.Block
	mk := func(kind, detail string) *engine.Violation {
		return &engine.Violation{Property: "C08", Kind: kind, Site: s.label,
			Detail: fmt.Sprintf("process died %s of block %d (%s, deviations %v): %s", s.label, hgt, cs.Variant, descr, detail)}
	}
	wd := sim.NewDir(tmpRoot(), "recover")
	if err := sim.CopyDir(s.dir, wd); err != nil {
		return "harness", nil
	}
	defer os.RemoveAll(wd)
	app, err := sim.OpenApp(wd)
	if err != nil {
		return "reopen-failed", mk("reopen-failed", err.Error())
	}
	ch := &sim.Chain{Dir: wd, Gen: h.Gen, App: app, Nonces: map[string]uint64{}, ValSets: map[int64]*tmtypes.ValidatorSet{}}
	for k, v := range orig.ValSets {
		ch.ValSets[k] = v.Copy()
	}
	defer ch.Close()
	inf := ch.Info()
	if inf.Panic != "" {
		return "info-panic", mk("info-panic", inf.Panic)
	}
	prevHash := ""
	if hgt >= 2 {
		prevHash = ref.Hashes[hgt-2]
	}
	var from int64
	switch {
	case inf.H == hgt && strings.EqualFold(inf.Req, ref.Hashes[hgt-1]):
		from = hgt + 1
	case inf.H == hgt-1 && (hgt == 1 || strings.EqualFold(inf.Req, prevHash)):
		from = hgt
	default:
		return "irreconcilable-info", mk("irreconcilable-info", fmt.Sprintf("Info reports height %d hash %s; consensus can reconcile only (%d,%s) or (%d,%s)", inf.H, strings.ToUpper(inf.Req), hgt-1, prevHash, hgt, ref.Hashes[hgt-1]))
	}
	ch.Height = from - 1
	if from-1 >= 1 {
		ch.AppHash, _ = hex.DecodeString(ref.Hashes[from-2])
	}
	if from == 1 {
		ic := ch.InitChain()
		if ic.Panic != "" {
			return "panic-on-replay", mk("panic-on-replay", "InitChain: "+ic.Panic)
		}
	}
	for b := from; b <= int64(len(ref.Hashes)); b++ {
		phase := "replay of the interrupted block"
		if b != hgt {
			phase = fmt.Sprintf("block %d after recovery", b)
		}
		bb := ch.BeginBlock(ref.Opts[b-1])
		if bb.Panic != "" {
			return "panic-on-replay", mk("panic-on-replay", phase+": BeginBlock: "+bb.Panic)
		}
		for i, raw := range ref.Raw[b-1] {
			rec, resp := ch.DeliverRaw(raw, "replayed")
			if rec.Panic != "" {
				return "panic-on-replay", mk("panic-on-replay", phase+": DeliverTx: "+rec.Panic)
			}
			if resp.Code != ref.Outs[b-1][i].Code {
				return "diverged", mk("diverged-result", fmt.Sprintf("%s: tx %d returns code %d (%s), the never-crashed node got %d", phase, i, resp.Code, firstLineOf(resp.Log), ref.Outs[b-1][i].Code))
			}
		}
		eb := ch.EndBlock()
		if eb.Panic != "" {
			return "panic-on-replay", mk("panic-on-replay", phase+": EndBlock: "+eb.Panic)
		}
		cm := ch.Commit()
		if cm.Panic != "" {
			return "panic-on-replay", mk("panic-on-replay", phase+": Commit: "+cm.Panic)
		}
		if got := strings.TrimPrefix(cm.Resp, "apphash="); got != ref.Hashes[b-1] {
			return "diverged", mk("diverged-hash", fmt.Sprintf("%s: app hash %s, the never-crashed node has %s", phase, got, ref.Hashes[b-1]))
		}
	}
	if from == hgt {
		return "ok-replayed", nil
	}
	return "ok-already-committed", nil
}

func (c *c08) Guards(a *engine.Agg, complete bool) []string {
	var g []string
	if a.Counters["recoveries_inside_commit"] == 0 {
		g = append(g, "no crash point inside Commit was recovered")
	}
	for _, l := range []string{"commit:ledger.SaveVersion#1", "commit:ledger.SaveVersion#7", "commit:evm.stateCommit", "commit:evm.trieCommit", "commit:evm.rootBatch", "commit:metadb.put:bc", "commit:metadb.put:bh", "after-BeginBlock", "after-EndBlock"} {
		if a.Counters["point:"+l] == 0 {
			g = append(g, "crash label never hit: "+l)
		}
	}
	if complete && a.Counters["point:commit:metadb.put:rh"] == 0 {
		g = append(g, "reward-hash record write never hit")
	}
	return g
}
