package checks

// C07 — restart equivalence at block boundaries.  For every history of a deviation-bounded family
// and EVERY subset (up to the tier's size) of block boundaries, the node is restarted there (copy of
// the data directory, new application, Info) and must answer exactly like the node that kept running.

import (
	"encoding/json"
	"fmt"
	"strings"

	"verif/mc/engine"
	"verif/mc/sim"
)

type c07Case struct {
	Variant  string  `json:"variant"`
	Devs     []dev   `json:"devs"`
	Restarts []int64 `json:"restarts"` // heights after whose commit the node restarts
	Lv       int     `json:"lv"`
}

type c07 struct {
	tier  string
	cases []c07Case
	slots map[string]*slotSet
	base  map[string]sim.History
}

func init() { engine.Register("C07", func() engine.Check { return &c07{} }) }

func (c *c07) ID() string { return "C07" }
func (c *c07) Meta() engine.Meta {
	return engine.Meta{
		Category:  "model_checking",
		LevelName: "number of restarts in the history (size of the restart set)",
		Technique: "exhaustive enumeration of restart sets over block boundaries x deviation-bounded histories on the real application, twin oracle against the continuously running replica",
		Rule: "histories: the dense 8-block history (validator membership change, limiter-sensitive staking, proposal by a validator, governance change of gasPrice, withdrawals, contract storage writes) in genesis variants g3 and g4L (live stake limiter), plus every single deviation from a core menu (staking / unstaking / proposal / vote / withdraw / contract call appended to any block); plus a variant whose passing proposal changes maxValidatorCnt and minValidatorStake themselves (10 blocks), plus the small-stake history (power-1 stakes, evidence with forfeiture, repeated evidence, jailing; 9 blocks), plus a history in which TWO passed proposals are applied in the same block and the following blocks depend on every changed parameter (gas price, minimum gas, slash ratio; 10 blocks, restart sets of size <= 2), plus a padded 12-block variant that crosses version 10 where the reward hash is re-folded. " +
			"For each history every subset of the block boundaries 1..7 of size <= 2 (quick) / every subset (thorough, default history) is a restart set; a restart = copy of the data directory (kill -9 model), new RigoApp, Info. " +
			"Oracle: Info reports the continuous replica's height and app hash; every later DeliverTx / EndBlock / Commit response equals the continuous replica's; the complete final state (committed ledgers, and the in-memory parameters in force and validator set last reported) equals the continuous replica's. " +
			"distinct_nontrivial = executions with at least one restart directly after a block that changed stakes, validators or parameters.",
		Assumptions: []string{"restart = process kill after Commit returned (completed writes survive); graceful Stop() leaves three stores open in-process and cannot be reopened in place, so the kill model is the one explored"},
	}
}

func c07Menu() []sim.TxSpec {
	return []sim.TxSpec{
		stk("U1", "V0", "1R"),
		stk("W", "W", "9R"),
		stk("U1", "V2", "5R"),
		unstk("V2", "V2", "V2", 0),
		prop("V1", 1, 1, 1, `{"maxValidatorCnt":"2"}`),
		prop("V0", 1, 1, 1, `{"minValidatorStake":"9000000000000000000"}`),
		vote("V1", 0, 0),
		wdr("V1", "1"),
		call("W", "contract:0", "", "0"),
	}
}

func paddedHistory(g *sim.Genesis) sim.History {
	h := denseHistory(g)
	for i := 0; i < 4; i++ {
		h.Blocks = append(h.Blocks, blk())
	}
	h.Blocks[9].Txs = []sim.TxSpec{wdr("V1", "7"), tr("U0", "U1", "1")}
	h.Blocks[10].Txs = []sim.TxSpec{stk("U1", "V0", "1R")}
	return h
}

// twoProposalsHistory: two passed proposals are applied in the SAME block (they overlap in one field); the blocks after
// it depend on every changed parameter: transfers (gas price, minimum gas), staking, evidence (slash ratio).
func twoProposalsHistory(g *sim.Genesis) sim.History {
	h := c15History(g)
	h.Blocks[2].Txs = twoProposals()
	h.Blocks[3].Txs = []sim.TxSpec{vote("V0", 0, 0), vote("V1", 0, 0), vote("V2", 0, 0), vote("V0", 1, 0), vote("V1", 1, 0), vote("V2", 1, 0)}
	h.Blocks[4].Txs = []sim.TxSpec{tr("U0", "U1", "1R")}
	h.Blocks[6].Txs = []sim.TxSpec{tr("U0", "U1", "1R"), stk("U1", "V1", "1R")}
	h.Blocks[7] = blkO(sim.BlockOpts{Evidence: []string{"V1"}}, tr("W", "U0", "1R"))
	h.Blocks[8].Txs = []sim.TxSpec{tr("U1", "U0", "1"), setdoc("W", "w", "http://w")}
	return h
}

func (c *c07) build() {
	c.slots = map[string]*slotSet{}
	c.base = map[string]sim.History{}
	for _, v := range []string{"g3", "g4L"} {
		h := denseHistory(genesisByName(v))
		c.base[v] = h
		c.slots[v] = historySlots(h, c07Menu(), false)
	}
	// g3mv: the passing proposal changes the validator limits themselves (count 3 -> 2, minimum stake 2 -> 9 RIGO)
	mv := denseHistory(genesis3())
	mv.Blocks[2].Txs[0] = prop("V0", 1, 1, 1, `{"maxValidatorCnt":"2","minValidatorStake":"9000000000000000000"}`)
	mv.Blocks = append(mv.Blocks, blk(stk("U1", "V0", "1R")), blk())
	c.base["g3mv"] = mv
	c.slots["g3mv"] = historySlots(mv, c07Menu(), false)
	c.base["g3s"] = smallStakeHistory(genesis3s())
	c.slots["g3s"] = historySlots(c.base["g3s"], nil, false)
	c.base["g3two"] = twoProposalsHistory(genesis3())
	c.slots["g3two"] = historySlots(c.base["g3two"], nil, false)
	c.base["g3pad"] = paddedHistory(genesis3())
	c.slots["g3pad"] = historySlots(c.base["g3pad"], nil, false)
}

func subsets(n int, maxSize int) [][]int64 {
	var out [][]int64
	for m := 0; m < 1<<n; m++ {
		var s []int64
		for i := 0; i < n; i++ {
			if m&(1<<i) != 0 {
				s = append(s, int64(i+1))
			}
		}
		if len(s) <= maxSize {
			out = append(out, s)
		}
	}
	return out
}

func (c *c07) Prepare(tier string, seed int64) error {
	c.tier = tier
	c.build()
	c.cases = nil
	for _, v := range []string{"g3", "g4L"} {
		ss := c.slots[v]
		// deviations: only append slots take part
		core := func(s, ch int) bool { return ss.slots[s].kind == slotAppend }
		sets, _ := enumDevs(ss.sizes(), 1, 1, core)
		for _, d := range sets {
			max := 1
			if len(d) == 0 {
				max = 2
				if tier == "thorough" {
					max = 7
				}
			} else if tier == "thorough" {
				max = 2
			}
			for _, r := range subsets(7, max) {
				if len(r) == 0 {
					continue
				}
				c.cases = append(c.cases, c07Case{Variant: v, Devs: d, Restarts: r, Lv: len(r)})
			}
		}
	}
	for _, r := range subsets(9, 2) {
		if len(r) > 0 {
			c.cases = append(c.cases, c07Case{Variant: "g3mv", Restarts: r, Lv: len(r)})
		}
	}
	{
		// g3mv with every single appended deviation x one restart at every boundary (a validator whose own stake
		// falls below the raised minimum while delegations keep its total above it, etc.)
		ss := c.slots["g3mv"]
		sets, _ := enumDevs(ss.sizes(), 1, 1, func(s, ch int) bool { return ss.slots[s].kind == slotAppend })
		for _, d := range sets {
			if len(d) == 0 {
				continue
			}
			for _, r := range subsets(9, 1) {
				if len(r) == 1 && r[0] >= 5 {
					c.cases = append(c.cases, c07Case{Variant: "g3mv", Devs: d, Restarts: r, Lv: 1})
				}
			}
		}
	}
	for _, r := range subsets(8, 2) {
		if len(r) > 0 {
			c.cases = append(c.cases, c07Case{Variant: "g3s", Restarts: r, Lv: len(r)})
		}
	}
	for _, r := range subsets(9, 2) {
		if len(r) > 0 {
			c.cases = append(c.cases, c07Case{Variant: "g3two", Restarts: r, Lv: len(r)})
		}
	}
	for _, r := range subsets(11, 1) {
		if len(r) > 0 {
			c.cases = append(c.cases, c07Case{Variant: "g3pad", Restarts: r, Lv: 1})
		}
	}
	var out []c07Case
	for lv := 1; lv <= 7; lv++ {
		for _, x := range c.cases {
			if x.Lv == lv {
				out = append(out, x)
			}
		}
	}
	c.cases = out
	return nil
}

func (c *c07) NumCases() int              { return len(c.cases) }
func (c *c07) Level(i int) int            { return c.cases[i].Lv }
func (c *c07) Desc(i int) json.RawMessage { return sim.MustJSON(c.cases[i]) }

func (c *c07) RunDesc(desc json.RawMessage) engine.Result {
	var cs c07Case
	_ = json.Unmarshal(desc, &cs)
	if c.slots == nil {
		c.build()
	}
	ss := c.slots[cs.Variant]
	h := ss.apply(c.base[cs.Variant], cs.Devs)
	descr := ss.describe(cs.Devs)
	res := engine.Result{}
	ref := reference(fmt.Sprintf("c07/%s/%v", cs.Variant, cs.Devs), h)
	rs := map[int64]bool{}
	for _, r := range cs.Restarts {
		rs[r] = true
	}
	retries0 := sim.SnapshotRetries
	a := sim.Run(tmpRoot(), h, &sim.Hooks{RestartAfter: rs, NoStates: true})
	defer a.Cleanup()
	res.Count("snapshots_repeated(directory changed while it was copied)", sim.SnapshotRetries-retries0)
	if a.Err != "" && !a.Chain.Dead {
		res.Err = a.Err
		return res
	}
	la := a.Chain.ConsensusLog()
	res.Transitions = len(a.Chain.Log)
	res.States = append(res.States, shortHash(strings.Join(la, "\n")))
	res.Nontrivial = true
	res.Count("restarts", len(cs.Restarts))
	site := func(h int64) string {
		// what happened in the block directly before the restart decides the fingerprint site
		return fmt.Sprintf("first-divergence:%s", "")
	}
	_ = site
	// Info answers
	for i, inf := range a.Infos {
		if i >= len(cs.Restarts) {
			break
		}
		rh := cs.Restarts[i]
		want := fmt.Sprintf("height=%d apphash=%s", rh, ref.Hashes[rh-1])
		if inf.Resp != want {
			res.Violations = append(res.Violations, engine.Violation{Property: "C07", Kind: "info-after-restart", Site: "Info",
				Detail: fmt.Sprintf("after a restart at height %d Info answers %q, the running node is at %q; history %v", rh, inf.Resp, want, descr), Case: desc})
			res.Outcome = "info-differs"
			return res
		}
	}
	if i, x, y := firstDiff(la, ref.Log); i >= 0 {
		// classify: which call kind diverged, and how many blocks after the restart
		var hh int64
		fmt.Sscanf(x[strings.IndexByte(x, '@')+1:], "%d", &hh)
		after := int64(-1)
		for _, r := range cs.Restarts {
			if r < hh {
				after = hh - r
			}
		}
		kind := "response-differs-after-restart"
		res.Outcome = "diverged:" + callKind(x)
		res.Violations = append(res.Violations, engine.Violation{Property: "C07", Kind: kind, Site: fmt.Sprintf("%s+%d", callKind(x), after),
			Detail: fmt.Sprintf("restarts after heights %v; first differing consensus response (call #%d):\n restarted : %s\n continuous: %s\n history deviations: %v", cs.Restarts, i, x, y, descr), Case: desc})
		return res
	}
	// the complete state committed by the last block (the reward ledger enters the app hash only at every 10th height)
	if !a.Chain.Dead && len(ref.States) == len(h.Blocks) {
		if st, err := a.Chain.DumpState(0, append(append([][]byte{}, a.Chain.Deployed...), a.Chain.Watch...)); err == nil {
			want := ref.States[len(ref.States)-1]
			if st.JSON() != want.JSON() {
				d := sim.DiffStates(st, want)
				comp := "state"
				if len(d) > 0 {
					comp = strings.SplitN(strings.SplitN(strings.TrimPrefix(d[0], "/"), "/", 2)[0], ":", 2)[0]
				}
				res.Outcome = "state-differs"
				res.Violations = append(res.Violations, engine.Violation{Property: "C07", Kind: "state-differs-after-restart", Site: comp,
					Detail: fmt.Sprintf("restarts after heights %v; all consensus responses equal, but the final state (restarted != continuous) differs: %v\n history deviations: %v", cs.Restarts, tailOf(d, 6), descr), Case: desc})
				return res
			}
			res.Count("final_states_compared", 1)
		}
	}
	res.Outcome = "equal"
	if len(cs.Devs) == 0 && len(cs.Restarts) == 2 && cs.Restarts[0] == 3 {
		res.Sample = sim.MustJSON(map[string]interface{}{"variant": cs.Variant, "restarts_after": cs.Restarts, "consensus_calls": len(la), "final": la[len(la)-1], "history": describeBlocks(h)})
	}
	return res
}

func (c *c07) Guards(a *engine.Agg, complete bool) []string {
	if a.Counters["restarts"] == 0 {
		return []string{"no restart executed"}
	}
	return nil
}
