package checks

// C04 — per-account nonces give exactly-once, in-order execution.  All sequences (with repetition)
// of CONCRETE signed transactions of two senders, cut into blocks at every possible place:
// duplicates inside a block, replays in later blocks, out-of-order delivery, interleaving.

import (
	"encoding/hex"
	"encoding/json"
	"fmt"
	"strings"

	"verif/mc/engine"
	"verif/mc/refmodel"
	"verif/mc/sim"
)

func c04Menu() []sim.TxSpec {
	caddr := "hex:" + hex.EncodeToString(sim.CreateAddress("U0", 0))
	fix := func(s sim.TxSpec, n uint64) sim.TxSpec {
		s.FixNonce, s.NonceVal = true, n
		s.Tag = fmt.Sprintf("%s #nonce%d", s.Tag, n)
		return s
	}
	g := func(s sim.TxSpec, gas uint64) sim.TxSpec { s.Gas = gas; return s }
	sd := func(to string, n uint64) sim.TxSpec {
		s := setdoc("U0", "doc", "http://d")
		s.To = to
		s.Tag = "setdoc U0 (to " + to[:4] + ")"
		return fix(s, n)
	}
	return []sim.TxSpec{
		fix(tr("U0", "U1", "1"), 0),
		fix(tr("U0", "U1", "1"), 1),
		fix(tr("U0", "U1", "1"), 2),
		fix(tr("W", "U0", "1"), 0),
		fix(tr("W", "U0", "1"), 1),
		fix(deploy("U0", counterInit, "0"), 0),
		fix(deploy("U0", counterInit, "0"), 1),
		fix(call("U0", caddr, "", "0"), 1),
		fix(call("U0", caddr, "", "0"), 2),
		fix(g(tr("U0", caddr, "0"), 60000), 1),
		fix(setdoc("U0", "doc", "http://d"), 0),
		fix(setdoc("U0", "doc", "http://d"), 1),
		sd(caddr, 1),
		sd(caddr, 2),
	}
}

type c04Case struct {
	Shared  json.RawMessage `json:"shared,omitempty"`  // a case of the shared history families (all eight transaction types, restarts), judged for nonces only
	EVMProg []int           `json:"evmProg,omitempty"` // EVM-interplay case: a C17 program run in C17's family 2, judged for nonces only
	Seq     []int           `json:"seq"`
	Cut     int             `json:"cut"` // bit i set = new block after element i
	Lv      int             `json:"lv"`
}

type c04 struct {
	cases []c04Case
	menu  []sim.TxSpec
	mc    *modelCheck
}

// c04Shared: the shared history families (dense history in 3 genesis variants, small-stake history; every single
// deviation) plus a governance/unstaking history, each also with one restart: the committed nonce of EVERY account is
// compared with the model after every block - for all eight transaction types, senders that are and are not the proposer.
func c04Shared() *modelCheck {
	fams := append(sharedFamilies(), family{Name: "nonces/governance-and-unstaking", Base: func() sim.History {
		h := c15History(genesis3())
		h.Blocks[2].Txs = []sim.TxSpec{prop("V1", 1, 2, 1, `{"gasPrice":"4"}`, `{"gasPrice":"5"}`), stk("U0", "V2", "2R")}
		h.Blocks[3].Txs = []sim.TxSpec{vote("V1", 0, 0), vote("V2", 0, 0), unstk("U0", "U0", "V2", 0)}
		h.Blocks[4].Txs = []sim.TxSpec{vote("V1", 0, 1), vote("V0", 0, 1), wdr("V2", "1"), unstk("V3", "V3", "V3", 0)}
		return h
	}, Menu: c15Menu()[:12], WithEnv: true, NAppend: 1, MaxD: 1, MaxDTh: 2})
	fams[len(fams)-1].Restarts = []int64{4, 6}
	// the block proposer itself sends contract transactions (deployment, calls) and native ones, in its own and in other
	// validators' blocks (proposer slot of every block)
	fams = append(fams, family{Name: "nonces/proposer-sends-contract-transactions", Base: func() sim.History { return c16History(genesis3()) },
		Menu: []sim.TxSpec{deploy("V0", counterInit, "0"), call("V0", "contract:0", "", "0"), call("V0", "contract:0", "", "1R"), deploy("V1", counterInit, "0"),
			call("V1", "contract:0", "", "0"), tr("V0", "U0", "1"), tr("V0", "contract:0", "0"), setdoc("V0", "v", "u")},
		WithEnv: true, NAppend: 2, MaxD: 2, MaxDTh: 2, Core: coreAppend(blocksSet(1, 2, 4, 5), 8, 1), Restarts: []int64{}})
	return &modelCheck{id: "C04", owners: map[string]bool{"C04": true}, families: fams}
}

func init() { engine.Register("C04", func() engine.Check { return &c04{} }) }

func (c *c04) ID() string { return "C04" }
func (c *c04) Meta() engine.Meta {
	m := modelMeta("exhaustive enumeration of delivery sequences of concrete signed transactions (with repetition, every block cut) on the real application, reference model + at-most-once oracle",
		"C04: two senders, 14 CONCRETE signed transactions (fixed nonce and time stamp, hence identical bytes whenever delivered): transfers with nonce 0/1/2, a second sender's transfers, a contract deployment with nonce 0/1, calls of the deployed contract with nonce 1/2, a plain transfer to the contract address, setdoc with nonce 0/1, setdoc ADDRESSED to the contract account with nonce 1/2; ALL sequences with repetition of length 3 (quick) / 4 (thorough), each cut into blocks at every possible place, after a 2-block warm-up; plus EVM-interplay cases: every gadget program up to length 2 of C17's alphabet in a history where an account takes part in a contract transaction, then sends native transactions (one of them a replay), then is first touched inside a reverting inner call frame; plus the shared history families and a governance/unstaking history (all eight transaction types by senders that are and are not the block proposer, every single deviation; the governance/unstaking history also with one restart after height 4 or 6; a family in which the block proposer itself sends contract and native transactions, up to two per block, D<=2). "+
			"Oracle: success => tx nonce == account nonce before (model); after success nonce +1, after failure unchanged (state comparison at every height, native and EVM write-back paths alike); every signed transaction (by its hash) succeeds at most once over the whole history.")
	m.LevelName = "length of the delivery sequence"
	return m
}

func (c *c04) Prepare(tier string, seed int64) error {
	c.menu = c04Menu()
	c.cases = nil
	L := 3
	if tier == "thorough" {
		L = 4
	}
	c.mc = c04Shared()
	if err := c.mc.Prepare(tier, seed); err != nil {
		return err
	}
	for i := 0; i < c.mc.NumCases(); i++ {
		c.cases = append(c.cases, c04Case{Shared: c.mc.Desc(i), Lv: 1})
	}
	n := len(c.menu)
	for l := 1; l <= L; l++ {
		idx := make([]int, l)
		for {
			for cut := 0; cut < 1<<(l-1); cut++ {
				c.cases = append(c.cases, c04Case{Seq: append([]int{}, idx...), Cut: cut, Lv: l})
			}
			k := l - 1
			for k >= 0 {
				idx[k]++
				if idx[k] < n {
					break
				}
				idx[k] = 0
				k--
			}
			if k < 0 {
				break
			}
		}
	}
	// EVM interplay: every gadget program up to length 2 in the family in which an account takes part in a contract
	// transaction, then sends native transactions, then is first touched inside a (possibly reverting) inner frame.
	ng := len(c17Gadgets())
	for a := 0; a < ng; a++ {
		c.cases = append(c.cases, c04Case{EVMProg: []int{a}, Lv: 1})
		if !c17Gadgets()[a].Term {
			for b := 0; b < ng; b++ {
				c.cases = append(c.cases, c04Case{EVMProg: []int{a, b}, Lv: 2})
			}
		}
	}
	return nil
}

func (c *c04) NumCases() int              { return len(c.cases) }
func (c *c04) Level(i int) int            { return c.cases[i].Lv }
func (c *c04) Desc(i int) json.RawMessage { return sim.MustJSON(c.cases[i]) }

func (c *c04) RunDesc(desc json.RawMessage) engine.Result {
	var cs c04Case
	_ = json.Unmarshal(desc, &cs)
	if c.menu == nil {
		c.menu = c04Menu()
	}
	if cs.Shared != nil {
		if c.mc == nil {
			c.mc = c04Shared()
			c.mc.build()
		}
		res := c.mc.RunDesc(cs.Shared)
		for i := range res.Violations {
			res.Violations[i].Case = desc
		}
		res.Count("shared_family_histories", 1)
		res.Sample = nil
		return res
	}
	if len(cs.EVMProg) > 0 {
		res, findings, _, names, mr := c17Run(c17Case{Prog: cs.EVMProg, Family: 3})
		if mr != nil && mr.Res != nil {
			defer mr.Res.Cleanup()
		}
		if res.Err != "" {
			return res
		}
		okBy := map[string]int{}
		for _, b := range mr.Res.Outcomes {
			for _, o := range b {
				if o.Code == 0 && o.Rec.Panic == "" {
					okBy[hexU(o.Hash)]++
				}
			}
		}
		for hsh, n := range okBy {
			if n > 1 {
				findings = append(findings, refmodel.Finding{Prop: "C04", Kind: "signed-tx-took-effect-twice", Site: "replay", Detail: fmt.Sprintf("the signed transaction %s succeeded %d times", hsh, n)})
			}
		}
		res.Violations = nil
		for _, f := range findings {
			if f.Prop != "C04" {
				continue
			}
			if f.Kind == "nonce-mismatch" && strings.Contains(f.Detail, "model 0") && strings.Contains(strings.Join(names, ";"), "selfdestruct") {
				continue // the self-destructed contract's native record: C17's known finding, not a sender nonce
			}
			res.Violations = append(res.Violations, engine.Violation{Property: "C04", Kind: f.Kind, Site: "evm-interplay:" + f.Site, Detail: fmt.Sprintf("%s\n program [%s] in the EVM-interplay family", f.Detail, strings.Join(names, " ; ")), Case: desc})
			break
		}
		res.Nontrivial = mr.TxOK > 0 && mr.TxFail > 0
		return res
	}
	res := engine.Result{}
	h := sim.History{Gen: genesis3(), Blocks: []sim.Block{blk(), blk()}}
	cur := blk()
	var names []string
	for i, k := range cs.Seq {
		cur.Txs = append(cur.Txs, c.menu[k])
		names = append(names, c.menu[k].Tag)
		if cs.Cut&(1<<i) != 0 && i < len(cs.Seq)-1 {
			h.Blocks = append(h.Blocks, cur)
			cur = blk()
			names = append(names, "|")
		}
	}
	h.Blocks = append(h.Blocks, cur, blk())
	mr := runWithModel(h, nil)
	defer mr.Res.Cleanup()
	if mr.Res.Err != "" && (mr.Res.Chain == nil || !mr.Res.Chain.Dead) {
		res.Err = mr.Res.Err
		return res
	}
	res.Transitions = len(mr.Res.Chain.Log)
	for _, st := range mr.Res.States {
		res.States = append(res.States, st.Hash())
	}
	res.Count("tx_ok", mr.TxOK)
	res.Count("tx_failed", mr.TxFail)
	findings := mr.Findings
	okBy := map[string]int{}
	for _, b := range mr.Res.Outcomes {
		for _, o := range b {
			if o.Code == 0 && o.Rec.Panic == "" {
				okBy[hexU(o.Hash)]++
			}
		}
	}
	for hsh, n := range okBy {
		if n > 1 {
			findings = append(findings, refmodel.Finding{Prop: "C04", Kind: "signed-tx-took-effect-twice", Site: "replay", Detail: fmt.Sprintf("the signed transaction %s succeeded %d times", hsh, n)})
		}
	}
	for _, f := range findings {
		if f.Prop != "C04" {
			res.Count("findings_owned_by_other_properties:"+f.Prop, 1)
			continue
		}
		v := engine.Violation{Property: "C04", Kind: f.Kind, Site: f.Site, Detail: fmt.Sprintf("%s\n delivery sequence: %s", f.Detail, strings.Join(names, " ; ")), Case: desc}
		dup := false
		for _, o := range res.Violations {
			if o.Fingerprint() == v.Fingerprint() {
				dup = true
			}
		}
		if !dup {
			res.Violations = append(res.Violations, v)
		}
	}
	res.Nontrivial = mr.TxOK > 0 && mr.TxFail > 0
	res.Outcome = shortHash(strings.Join(mr.Res.Chain.ConsensusLog(), "\n"))
	if len(cs.Seq) == 3 && cs.Seq[0] == 5 && cs.Seq[1] == 7 && cs.Cut == 1 {
		res.Sample = sim.MustJSON(map[string]interface{}{"sequence": names, "tx_ok": mr.TxOK, "tx_failed": mr.TxFail, "results": tailOf(mr.Res.Chain.ConsensusLog(), 12)})
	}
	return res
}

func (c *c04) Guards(a *engine.Agg, complete bool) []string {
	if a.Counters["tx_ok"] == 0 || a.Counters["tx_failed"] == 0 {
		return []string{"no successful or no failed transaction"}
	}
	return nil
}
