package checks

// C01 — replica determinism.  Every history in a deviation-bounded neighbourhood of a dense default
// history is executed on independent replicas (different directory; thorough: also a different OS
// process with another TZ / GOMAXPROCS); all consensus-visible responses must be identical.

import (
	"encoding/json"
	"fmt"
	"os"
	"strings"

	"verif/mc/engine"
	"verif/mc/sim"
)

type hcase struct {
	Variant string `json:"variant"` // genesis variant
	Devs    []dev  `json:"devs"`
	Lv      int    `json:"lv"`
	Extra   string `json:"extra,omitempty"`
}

type c01 struct {
	tier  string
	cases []hcase
	slots map[string]*slotSet
	base  map[string]sim.History
	pool  *engine.Pool
}

func init() { engine.Register("C01", func() engine.Check { return &c01{} }) }

func (c *c01) ID() string { return "C01" }
func (c *c01) Meta() engine.Meta {
	return engine.Meta{
		Category:  "model_checking",
		MinRepro:  1,
		LevelName: "number of deviations from the dense default history",
		Technique: "deviation-bounded exhaustive exploration of block histories on the real application, twin-replica differential oracle",
		Rule: "default = dense 8-block history (all 8 tx types, validator change, passing governance proposal, unbonding+refund, rewards+withdraw, contract deploy/call); " +
			"deviation slots: every tx position (drop / replace by one of 24 menu templates, 12 of them failing), an append slot per block, per-block absent-signer pattern, evidence entry, proposer; " +
			"genesis variants g3 (3 validators, neutral limiter), g1 (1 validator), g4L (4 equal validators, limiter 33/33), g3s (small-stake history: power-1 stakes, evidence, jailing), g3pp (four passed proposals applying in the same block with overlapping fields), g3fz (twenty unbonding stakes, twelve of them refunded in the same block while eight remain). " +
			"Each history runs on replica A and on replica B in ANOTHER OS PROCESS (separate data directory, TZ changed, restarted once at a case-dependent height; thorough: a third, never restarted replica); compared per call: DeliverTx code/data/gas, EndBlock validator updates (ordered), Commit app hash, Info; and the complete state committed by the last block (the reward ledger's root enters the app hash only at every 10th height, beyond these histories: a state difference is an app-hash difference at that height). " +
			"distinct_nontrivial = histories with at least one successful and one failed transaction.",
		Assumptions: []string{
			"Go's map iteration order cannot be enumerated from outside the runtime: each history is executed on 2 (thorough: 3) replicas, so an order dependence is exercised many thousand times but SAMPLED, not enumerated; the exhaustive dimension is the history",
			"replicas are driven with byte-identical requests (the harness is the consensus engine)",
		},
	}
}

func (c *c01) build() {
	c.slots = map[string]*slotSet{}
	c.base = map[string]sim.History{}
	for _, v := range []string{"g3", "g1", "g4L"} {
		h := denseHistory(genesisByName(v))
		c.base[v] = h
		c.slots[v] = historySlots(h, txMenu(), true)
	}
	c.base["g3s"] = smallStakeHistory(genesis3s())
	c.slots["g3s"] = historySlots(c.base["g3s"], txMenu(), true)
	// g3pp: several passed proposals become applicable in the SAME block and set a common field differently
	pp := c15History(genesis3())
	pp.Blocks[2].Txs = append(twoProposals(), prop("V2", 1, 1, 2, `{"slashRatio":"70","gasPrice":"9"}`), prop("V0", 1, 1, 2, `{"slashRatio":"80"}`))
	for i := 0; i < 4; i++ {
		pp.Blocks[3].Txs = append(pp.Blocks[3].Txs, vote("V0", i, 0), vote("V1", i, 0), vote("V2", i, 0))
	}
	pp.Blocks = pp.Blocks[:8]
	c.base["g3pp"] = pp
	c.slots["g3pp"] = historySlots(pp, txMenu(), true)
	// g3fz: many unbonding stakes; twelve of twenty mature (are refunded and removed from the unbonding tree) in the SAME
	// block while eight remain: the tree's root depends on the order of the removals
	var mk, rel1, rel2 []sim.TxSpec
	for i := 0; i < 5; i++ {
		mk = append(mk, stk("U0", "V1", "1R"), stk("U1", "V1", "1R"), stk("U0", "V0", "1R"), stk("W", "V0", "1R"))
	}
	for i := 0; i < 5; i++ {
		if i < 3 {
			rel1 = append(rel1, unstk("U0", "U0", "V1", i), unstk("U1", "U1", "V1", i), unstk("U0", "U0", "V0", i), unstk("W", "W", "V0", i))
		} else {
			rel2 = append(rel2, unstk("U0", "U0", "V1", i), unstk("U1", "U1", "V1", i), unstk("U0", "U0", "V0", i), unstk("W", "W", "V0", i))
		}
	}
	fz := sim.History{Gen: genesis3(), Blocks: []sim.Block{
		blk(mk...), blk(), blk(rel1...), blk(rel2...),
		blk(tr("U0", "U1", "1")), blk(), blk(tr("U1", "U0", "1")), blk(),
	}}
	c.base["g3fz"] = fz
	c.slots["g3fz"] = historySlots(fz, txMenu(), true)
}

func (c *c01) Prepare(tier string, seed int64) error {
	c.tier = tier
	c.build()
	c.cases = nil
	maxD := 2
	for _, v := range []string{"g3", "g1", "g4L", "g3s", "g3pp", "g3fz"} {
		ss := c.slots[v]
		d := maxD
		if v != "g3" {
			d = 1
		}
		core := func(s, ch int) bool {
			sl := ss.slots[s]
			if tier == "thorough" && v == "g3" {
				// all pairs over: append slots (first 16 templates), tx slots (drop / first 8 replacements), every env slot
				switch sl.kind {
				case slotTx:
					return ch <= 9
				case slotAppend:
					return ch <= 16
				}
				return true
			}
			// quick: pairs only over append/evidence/absent/proposer slots and the first 8 menu entries
			switch sl.kind {
			case slotTx:
				return false
			case slotAppend:
				return ch <= 8 && sl.block%2 == 0
			}
			return ch == 1
		}
		sets, lv := enumDevs(ss.sizes(), d, 2, core)
		for i := range sets {
			c.cases = append(c.cases, hcase{Variant: v, Devs: sets[i], Lv: lv[i]})
		}
	}
	// order by level so that a budget cut leaves complete lower levels
	sortCases(c.cases)
	return nil
}

func sortCases(cs []hcase) {
	// stable partition by level
	var out []hcase
	for lv := 0; lv <= 4; lv++ {
		for _, x := range cs {
			if x.Lv == lv {
				out = append(out, x)
			}
		}
	}
	copy(cs, out)
}

func (c *c01) NumCases() int              { return len(c.cases) }
func (c *c01) Level(i int) int            { return c.cases[i].Lv }
func (c *c01) Desc(i int) json.RawMessage { return sim.MustJSON(c.cases[i]) }

func (c *c01) history(cs hcase) (sim.History, []string) {
	if c.slots == nil {
		c.build()
	}
	ss := c.slots[cs.Variant]
	return ss.apply(c.base[cs.Variant], cs.Devs), ss.describe(cs.Devs)
}

// Eval: run one history in this (helper) process and return its consensus log.
func (c *c01) Eval(req json.RawMessage) json.RawMessage {
	var cs hcase
	_ = json.Unmarshal(req, &cs)
	h, _ := c.history(cs)
	rsAt := int64(1 + int(shortHash(string(req))[0])%(len(h.Blocks)-1))
	r := sim.Run(tmpRoot(), h, &sim.Hooks{NoStates: true, RestartAfter: map[int64]bool{rsAt: true}})
	defer r.Cleanup()
	return sim.MustJSON(append(r.Chain.ConsensusLog(), finalStateLine(r.Chain)))
}

// finalStateLine: the complete state committed by the last block, as one more compared "response". A ledger whose root
// enters the app hash only at every 10th height (rewards) may differ between replicas without the hashes of an
// 8-block history showing it; the state itself shows it at once.
func finalStateLine(ch *sim.Chain) string {
	if ch == nil || ch.Dead {
		return "CommittedState@final -"
	}
	st, err := ch.DumpState(0, append(append([][]byte{}, ch.Deployed...), ch.Watch...))
	if err != nil {
		return "CommittedState@final error " + err.Error()
	}
	return "CommittedState@final " + committedOnly(st).JSON()
}

func txStats(r *sim.RunResult) (ok, failed int) {
	for _, b := range r.Outcomes {
		for _, o := range b {
			if o.Code == 0 && o.Rec.Panic == "" {
				ok++
			} else {
				failed++
			}
		}
	}
	return
}

func firstDiff(a, b []string) (int, string, string) {
	n := len(a)
	if len(b) < n {
		n = len(b)
	}
	for i := 0; i < n; i++ {
		if a[i] != b[i] {
			return i, a[i], b[i]
		}
	}
	if len(a) != len(b) {
		x, y := "<end>", "<end>"
		if n < len(a) {
			x = a[n]
		}
		if n < len(b) {
			y = b[n]
		}
		return n, x, y
	}
	return -1, "", ""
}

func callKind(s string) string {
	if i := strings.IndexByte(s, '@'); i > 0 {
		return s[:i]
	}
	return s
}

func (c *c01) RunDesc(desc json.RawMessage) engine.Result {
	var cs hcase
	_ = json.Unmarshal(desc, &cs)
	h, descr := c.history(cs)
	res := engine.Result{}
	a := sim.Run(tmpRoot(), h, nil)
	defer a.Cleanup()
	if a.Err != "" {
		res.Err = a.Err
		return res
	}
	// replica B lives in ANOTHER OS PROCESS (helper with another TZ), in another directory, and in two
	// successive application instances: it is restarted once, after a height derived from the case.
	la := append(a.Chain.ConsensusLog(), finalStateLine(a.Chain))
	if c.pool == nil {
		_ = os.Setenv("TZ", "Asia/Seoul")
		p, err := engine.NewPool("C01", 1)
		if err != nil {
			res.Err = "cannot start the replica process: " + err.Error()
			return res
		}
		c.pool = p
	}
	outs, err := c.pool.Map([]json.RawMessage{desc})
	if err != nil {
		c.pool = nil
		res.Err = "replica process: " + err.Error()
		return res
	}
	var lb []string
	_ = json.Unmarshal(outs[0], &lb)
	res.Transitions = len(la) + len(lb)
	for _, st := range a.States {
		res.States = append(res.States, st.Hash())
	}
	ok, failed := txStats(a)
	res.Count("tx_ok", ok)
	res.Count("tx_failed", failed)
	if a.Chain.Dead {
		res.Count("histories_ending_in_panic", 1)
	}
	res.Nontrivial = ok > 0 && failed > 0
	res.Outcome = shortHash(strings.Join(la, "\n"))
	report := func(i int, x, y, who string) {
		if strings.HasPrefix(x, "CommittedState@final {") && strings.HasPrefix(y, "CommittedState@final {") {
			var sa, sb sim.State
			if json.Unmarshal([]byte(strings.TrimPrefix(x, "CommittedState@final ")), &sa) == nil && json.Unmarshal([]byte(strings.TrimPrefix(y, "CommittedState@final ")), &sb) == nil {
				d := sim.DiffStates(&sa, &sb)
				x, y = "CommittedState@final (A vs other): "+fmt.Sprint(tailOf(d, 6)), "(see A)"
			}
		}
		res.Violations = append(res.Violations, engine.Violation{Property: "C01", Kind: "replicas-diverge", Site: callKind(x),
			Detail: fmt.Sprintf("replica A and %s differ at consensus call #%d:\n A: %s\n %s: %s\n history: %v", who, i, x, who, y, descr), Case: desc})
	}
	if i, x, y := firstDiff(la, lb); i >= 0 {
		report(i, x, y, "B(other process, restarted once)")
	}
	if c.tier == "thorough" && len(res.Violations) == 0 {
		// a third replica in this process, never restarted
		cr := sim.Run(tmpRoot(), h, &sim.Hooks{NoStates: true})
		lc := append(cr.Chain.ConsensusLog(), finalStateLine(cr.Chain))
		cr.Cleanup()
		res.Transitions += len(lc)
		res.Count("third_replica", 1)
		if i, x, y := firstDiff(la, lc); i >= 0 {
			report(i, x, y, "C(same process)")
		}
	}
	if len(cs.Devs) <= 1 {
		res.Sample = sim.MustJSON(map[string]interface{}{"variant": cs.Variant, "deviations": descr, "consensus_calls": len(la), "tx_ok": ok, "tx_failed": failed, "final_app_hash": la[len(la)-2], "history": describeBlocks(h)})
	}
	return res
}

func (c *c01) Guards(a *engine.Agg, complete bool) []string {
	var g []string
	if a.Counters["tx_ok"] == 0 || a.Counters["tx_failed"] == 0 {
		g = append(g, "no successful or no failed transactions at all")
	}
	if len(a.Outcomes) < 10 {
		g = append(g, fmt.Sprintf("only %d distinct consensus logs", len(a.Outcomes)))
	}
	return g
}
