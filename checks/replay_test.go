package checks

import (
	"encoding/json"
	"os"
	"testing"

	"verif/mc/engine"
)

// TestReplay re-executes one recorded violation WITHOUT the explorer:
//
//	REPLAY=/verif/replays/C05-xxxx.json go test -tags verif -vet=off -run TestReplay ./checks
//
// It fails (reproduces) when the recorded case still violates the property on the current /repo tree.
func TestReplay(t *testing.T) {
	path := os.Getenv("REPLAY")
	if path == "" {
		t.Skip("set REPLAY=<replay file>")
	}
	defer CleanupTmp()
	bz, err := os.ReadFile(path)
	if err != nil {
		t.Fatal(err)
	}
	var rf struct {
		Property string          `json:"property"`
		Tier     string          `json:"tier"`
		Seed     int64           `json:"seed"`
		Case     json.RawMessage `json:"case"`
	}
	if err := json.Unmarshal(bz, &rf); err != nil {
		t.Fatal(err)
	}
	c, ok := engine.Lookup(rf.Property)
	if !ok {
		t.Fatalf("unknown property %s", rf.Property)
	}
	if err := c.Prepare(rf.Tier, rf.Seed); err != nil {
		t.Fatal(err)
	}
	r := c.RunDesc(rf.Case)
	if r.Err != "" {
		t.Fatalf("harness error: %s", r.Err)
	}
	for _, v := range r.Violations {
		t.Errorf("REPRODUCED %s: %s\n%s", rf.Property, v.Fingerprint(), v.Detail)
	}
}
