package checks

import (
	"fmt"
	"math/big"
	"sort"
	"strings"

	ctrlertypes "github.com/rigochain/rigo-go/ctrlers/types"

	"verif/mc/refmodel"
	"verif/mc/sim"
)

// modelRun executes a history on the real application with the reference model in lock step.
type modelRun struct {
	Res      *sim.RunResult
	Model    *refmodel.Model
	Findings []refmodel.Finding
	TxOK     int
	TxFail   int
	Kinds    map[string]int // successful tx count per type
	FailedBy map[string]int
	// C02 bookkeeping per height: total value of the implementation state
	Totals []*big.Int
	// ModelTotals: total value of the reference model (native model + reference EVM world when present) per height
	ModelTotals []*big.Int
	Minted      []*big.Int
	Burnt       []*big.Int
	Folded      map[string]int64 // the validator set obtained by folding all EndBlock updates onto the genesis set
	// Announced: validators that appeared in at least one update list (the others are in the set only because genesis put them there)
	Announced map[string]bool
}

func hexU(b []byte) string { return strings.ToUpper(fmt.Sprintf("%x", b)) }

func txInfo(c *sim.Chain, m *refmodel.Model, out sim.TxOutcome) *refmodel.TxInfo {
	tx := out.Tx
	s := out.Spec
	t := &refmodel.TxInfo{Type: s.Type, From: hexU(tx.From), To: hexU(tx.To), Amount: tx.Amount.ToBig(), Gas: tx.Gas, Price: tx.GasPrice.ToBig(),
		Nonce: tx.Nonce, Hash: hexU(out.Hash), Code: out.Code, GasUsed: out.GasUse, RetData: out.Data,
		SigOK: s.BadSig == "" && s.SignBy == "" && s.ChainID == "", SenderPub: hexU(sim.W(s.From).Pub)}
	if out.Rec.Panic != "" {
		t.Code = 999999
	}
	t.TxIdx = out.Rec.Idx
	t.ErrLog = out.Rec.Log
	for _, ev := range out.Events {
		if ev.Type != "evm" {
			continue
		}
		cur := ""
		for _, a := range ev.Attributes {
			switch {
			case string(a.Key) == "contract":
				if cur != "" {
					t.Logs = append(t.Logs, cur)
				}
				cur = "addr=" + strings.ToUpper(string(a.Value))
			case strings.HasPrefix(string(a.Key), "topic."):
				cur += " " + string(a.Key) + "=" + strings.ToUpper(string(a.Value))
			case string(a.Key) == "data":
				cur += " data=" + strings.ToUpper(string(a.Value))
			}
		}
		if cur != "" {
			t.Logs = append(t.Logs, cur)
		}
	}
	switch p := tx.Payload.(type) {
	case *ctrlertypes.TrxPayloadUnstaking:
		t.UnstakeHash = hexU(p.TxHash)
	case *ctrlertypes.TrxPayloadWithdraw:
		t.ReqAmt = p.ReqAmt.ToBig()
	case *ctrlertypes.TrxPayloadProposal:
		t.Start, t.Period, t.Apply, t.OptType = p.StartVotingHeight, p.VotingPeriodBlocks, p.ApplyingHeight, p.OptType
		for _, o := range p.Options {
			t.Options = append(t.Options, string(o))
		}
	case *ctrlertypes.TrxPayloadVoting:
		t.VoteHash, t.Choice = hexU(p.TxHash), p.Choice
	case *ctrlertypes.TrxPayloadSetDoc:
		t.Name, t.URL = p.Name, p.URL
	case *ctrlertypes.TrxPayloadContract:
		t.Data = p.Data
	}
	if a, ok := m.Acct[t.To]; ok && a.Code != "" {
		t.ToIsContract = true
	}
	if s.Type == "deploy" && out.Code == 0 {
		t.Created = hexU(out.Data)
	}
	return t
}

type modelOpts struct {
	RestartAfter map[int64]bool
	Gap          func(c *sim.Chain, h int64, kind string, idx int)
	EVM          refmodel.EVMHook
	OnStart      func(c *sim.Chain, m *refmodel.Model)
}

func runWithModel(h sim.History, mo *modelOpts) *modelRun {
	mr := &modelRun{Model: refmodel.New(h.Gen), Kinds: map[string]int{}, FailedBy: map[string]int{}, Folded: map[string]int64{}, Announced: map[string]bool{}}
	m := mr.Model
	for i, n := range h.Gen.Vals {
		mr.Folded[sim.W(n).Hex()] = h.Gen.Powers[i]
	}
	hk := &sim.Hooks{}
	if mo != nil {
		hk.RestartAfter = mo.RestartAfter
	}
	var res *sim.RunResult
	hk.Gap = func(c *sim.Chain, hh int64, kind string, idx int) {
		if mo != nil && mo.Gap != nil {
			mo.Gap(c, hh, kind, idx)
		}
		switch kind {
		case "post-begin":
			b := h.Blocks[hh-1]
			var votes []refmodel.Vote
			if hh > 1 && !b.Opts.NoVotes {
				if prev := c.ValSetAt(hh - 1); prev != nil {
					absent := map[string]bool{}
					for _, a := range b.Opts.Absent {
						absent[sim.W(a).Hex()] = true
					}
					for _, v := range prev.Validators {
						a := hexU(v.Address)
						votes = append(votes, refmodel.Vote{Addr: a, Power: v.VotingPower, Signed: !absent[a]})
					}
				}
			}
			var ev []string
			for _, e := range b.Opts.Evidence {
				ev = append(ev, sim.W(e).Hex())
			}
			prop := ""
			if b.Opts.Proposer != "" {
				prop = sim.W(b.Opts.Proposer).Hex()
			}
			m.BeginBlock(hh, prop, ev, votes)
		case "post-end":
			m.EndBlock()
			mr.checkValidators(c, hh, res)
		case "post-commit":
			minted, burnt := m.Minted, m.Burnt
			m.Commit()
			st := res.States[len(res.States)-1]
			// the model takes over the validator set last reported (C10 has judged it)
			m.LastVals = nil
			var addrs []string
			for a := range st.LastVals {
				addrs = append(addrs, a)
			}
			sort.Strings(addrs)
			for _, a := range addrs {
				m.LastVals = append(m.LastVals, refmodel.Val{Addr: a, Power: st.LastVals[a]})
			}
			mr.ModelTotals = append(mr.ModelTotals, m.TotalValue()) // before Compare re-synchronises anything
			m.Compare(st)
			mr.Totals = append(mr.Totals, st.TotalValue())
			mr.Minted = append(mr.Minted, minted)
			mr.Burnt = append(mr.Burnt, burnt)
			mr.Findings = append(mr.Findings, m.TakeFindings()...)
		}
	}
	hk.AfterTx = func(c *sim.Chain, hh int64, out sim.TxOutcome) {
		ti := txInfo(c, m, out)
		if ti.Code == 0 {
			mr.TxOK++
			mr.Kinds[ti.Type]++
		} else {
			mr.TxFail++
			mr.FailedBy[out.Spec.String()]++
		}
		m.DeliverTx(ti)
	}
	res = &sim.RunResult{}
	dir := sim.NewDir(tmpRoot(), "mrun")
	res.Dirs = append(res.Dirs, dir)
	c, err := sim.NewChain(dir, h.Gen)
	if err != nil {
		res.Err = err.Error()
		mr.Res = res
		return mr
	}
	res.Chain = c
	c.Start()
	if mo != nil {
		m.EVM = mo.EVM
		if mo.OnStart != nil {
			mo.OnStart(c, m)
		}
	}
	sim.RunBlocks(tmpRoot(), res, h.Blocks, hk)
	mr.Res = res
	mr.Findings = append(mr.Findings, m.TakeFindings()...)
	return mr
}

// checkValidators is C10's oracle, evaluated after EndBlock(h).
func (mr *modelRun) checkValidators(c *sim.Chain, h int64, res *sim.RunResult) {
	m := mr.Model
	add := func(kind, site, f string, a ...interface{}) {
		mr.Findings = append(mr.Findings, refmodel.Finding{Prop: "C10", Kind: kind, Site: site, Detail: fmt.Sprintf(f, a...), H: h})
	}
	if c.ValErr != "" && c.ValErrH == h {
		add("update-rejected-by-consensus", "EndBlock", "height %d: tendermint's ValidatorSet rejects the update list: %s", h, c.ValErr)
	}
	// fold
	seen := map[string]bool{}
	for _, u := range c.LastUpd {
		pk := hexU(u.PubKey.GetSecp256K1())
		if seen[pk] {
			add("duplicate-update", "EndBlock", "height %d: validator %s appears twice in one update list", h, pk)
		}
		seen[pk] = true
		addr := ""
		for a, d := range m.DelegAt[h-1] {
			if d.PubKey == pk {
				addr = a
			}
		}
		if addr == "" {
			for a, d := range m.GenesisDg {
				if d.PubKey == pk {
					addr = a
				}
			}
		}
		if addr == "" {
			for n := range c.Gen.Holders {
				if hexU(sim.W(n).Pub) == pk {
					addr = sim.W(n).Hex()
				}
			}
		}
		mr.Announced[addr] = true
		if u.Power < 0 {
			add("negative-power", "EndBlock", "height %d: update with negative power", h)
		}
		if u.Power == 0 {
			if _, ok := mr.Folded[addr]; !ok {
				add("removal-of-non-member", "EndBlock", "height %d: removal of %s which is not in the validator set", h, addr)
			}
			delete(mr.Folded, addr)
		} else {
			mr.Folded[addr] = u.Power
		}
	}
	// expected: the delegatees committed by the previous block (implementation's own state), own stake >= minimum,
	// ranked by total power, truncated to the maximum count; power = total bonded power. Ties at the cut are open.
	type cand struct {
		a    string
		self int64
		tot  int64
	}
	var cands []cand
	if h >= 2 {
		st := res.States[h-2]
		for a, d := range st.Delegatees {
			cands = append(cands, cand{a, d.Self, d.Total})
		}
	} else {
		for a, d := range m.GenesisDg {
			cands = append(cands, cand{a, d.Self(), d.Total()})
		}
	}
	minPower := new(big.Int).Div(m.P("minValidatorStake"), sim.Pow18).Int64()
	maxN := int(m.Pi("maxValidatorCnt"))
	var elig []cand
	for _, x := range cands {
		if x.self >= minPower {
			elig = append(elig, x)
		}
	}
	sort.Slice(elig, func(i, j int) bool { return elig[i].tot > elig[j].tot })
	n := len(elig)
	if n > maxN {
		n = maxN
	}
	if h == 1 {
		return // nothing has been committed yet; the genesis set stays as it is
	}
	// A genesis validator that no update list has ever mentioned and that the staking ledger no longer selects:
	// classified separately (and dropped from the fold so that it is reported once).
	em0 := map[string]bool{}
	for i := 0; i < n; i++ {
		em0[elig[i].a] = true
	}
	for i := n; i < len(elig); i++ {
		if n > 0 && elig[i].tot == elig[n-1].tot {
			em0[elig[i].a] = true // tie at the cut
		}
	}
	strict := map[string]bool{}
	for _, x := range elig {
		if n > 0 && x.tot > elig[n-1].tot {
			strict[x.a] = true
		}
	}
	var fkeys []string
	for a := range mr.Folded {
		fkeys = append(fkeys, a)
	}
	sort.Strings(fkeys)
	for _, a := range fkeys {
		stale := !em0[a] || (len(mr.Folded) > n && !strict[a])
		if stale && !mr.Announced[a] {
			if _, isGen := m.GenesisDg[a]; isGen {
				add("genesis-validator-never-removed", "first-update-list-diffs-against-empty-set", "height %d: genesis validator %s is no longer selected by the staking ledger (state of height %d) but no update list ever removed it", h, a, h-1)
				delete(mr.Folded, a)
			}
		}
	}
	if len(mr.Folded) != n {
		add("validator-set-size", "fold", "height %d: folding the updates gives %d validators %v, the staking ledger at height %d has %d eligible (max %d)", h, len(mr.Folded), mr.Folded, h-1, len(elig), maxN)
		return
	}
	cut := int64(-1)
	if n > 0 {
		cut = elig[n-1].tot
	}
	em := map[string]cand{}
	for _, x := range elig {
		em[x.a] = x
	}
	for a, p := range mr.Folded {
		x, ok := em[a]
		if !ok {
			add("validator-not-eligible", "fold", "height %d: %s is in the folded validator set but not an eligible delegatee at height %d", h, a, h-1)
			continue
		}
		if x.tot != p {
			add("validator-power", "fold", "height %d: %s has voting power %d, its total bonded power at height %d is %d", h, a, p, h-1, x.tot)
		}
		if x.tot < cut {
			add("validator-below-cut", "fold", "height %d: %s (power %d) is in the set although %d eligible delegatees have at least %d", h, a, x.tot, n, cut)
		}
	}
	for _, x := range elig {
		if x.tot > cut {
			if _, ok := mr.Folded[x.a]; !ok {
				add("validator-missing", "fold", "height %d: eligible delegatee %s with power %d (cut %d) is not in the folded validator set", h, x.a, x.tot, cut)
			}
		}
	}
}
